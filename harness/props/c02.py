"""C02 — results equal the pandas meaning of the query for every partitioning."""
from __future__ import annotations

import itertools
import operator

import numpy as np
import pandas as pd

from harness import e2e
from harness.core import Family, Failure, Support, drive, first_diff
from harness.render import Names, b01, rarg, rgraph, rkey

LEAN_MODULES = ["DxModel.Props.C02", "DxModel.Props.C10"]
GENERATED = []
TRUSTED = [
    "reduction triples: aggregate(map combine batches) = aggregate(flattened batches) and aggregate(map chunk parts) = "
    "pandas reduction of the concatenation (hypotheses HomLaw / hspec of C02_tree*, validated per reduction by family reduction_laws)",
    "specs of toolz.partition_all, _cum_aggregate_apply, TakeLast.operation, M.tail/M.head, _combined_parts, overlap_chunk "
    "on null-free integer frames (Layers/*.lean; validated by family helper_specs)",
    "the windowed function handed to map_overlap is a window function with the declared before/after (hypothesis of C02_overlap)",
    "the blockwise operation distributes over concatenation of co-partitioned pieces (hypothesis Additive of C02_blockwise)",
    "harness/render.py + Driver/Layers.lean canonical text of graphs",
]
PARTIAL = [
    "nulls inside partitions (skipna, all-null carries of _cum_aggregate_apply) are outside the row model: conformance + end-to-end search only",
    "timedelta windows, rolling with expansion != 1, merge_asof, resample, quantile sketches: not modelled",
    "sort_values/set_index by sampled quantiles, alignment by divisions (C02_sort, C02_align of the design) are covered by C13 theorems and the end-to-end search only",
    "outer/right joins and BroadcastJoin._layer's split of the small side: end-to-end search only (inner/left hash join and plain broadcast are proven)",
]
EXPLANATION = (
    "Theorems alg(parts) = spec(concat parts) for all partitionings: TreeReduce (any n, any split_every, termination, "
    "graph function = emitted dict), CumulativeFinalize scan, map_overlap windows with refusal dichotomy, Blockwise with "
    "broadcast operands, group-aggregation / joins over a key-consistent shuffle (uses C12). Tie: exact graph equality of "
    "the real _layer() dicts with the models, helper/reduction-law conformance. Support: operator families x all cuts x "
    "empty/single-row/all-null partitions x known/unknown divisions x independent layouts, against pandas."
)
RULE = ("graphs: every (n, split_every, kwargs) / (n) / (n, before, after) / expression shape in the bound; helpers: seeded random small "
        "frames; non-trivial = more than one level / partition / non-zero window / a broadcast operand")


# --------------------------------------------------------------------------- real layers


def _frame(n, cols=("x",)):
    import dask_expr as dx

    pdf = pd.DataFrame({c: np.arange(max(n, 1) * 2) for c in cols})
    parts = [pdf.iloc[2 * i : 2 * i + 2] for i in range(n)]
    return dx.from_map(e2e._PartGetter(parts), list(range(n)), meta=pdf.iloc[:0]).expr


def comb_fn(xs, **kw):
    return xs


def agg_fn(xs, **kw):
    return xs


class _CumNames(Names):
    """`self._name + "-intermediate"` belongs to the expression itself"""

    def split(self, s):
        suf = "-intermediate"
        if self.self_name and s == self.self_name + suf:
            return suf, "self"
        return super().split(s)


def _keys(ks, names):
    return ",".join(rkey(k, names) for k in ks)


def real_tree_layer(n, se, kw):
    from dask.utils import apply
    from dask_expr._reductions import TreeReduce

    fr = _frame(n)
    e = TreeReduce(fr, None, fr._meta, comb_fn, agg_fn, {"a": 1} if kw else {}, {}, se)
    dsk = e._layer()
    names = Names(e._name, [fr._name])

    def r_apply(t, names):
        f = t[1]
        if f is comb_fn and len(t) == 4 and len(t[2]) == 1 and t[3] == {"a": 1}:
            return f"apply_combine([{_keys(t[2][0], names)}],kw)"
        if f is agg_fn and len(t) == 4 and len(t[2]) == 1 and t[3] == {}:
            return f"apply_aggregate([{_keys(t[2][0], names)}],kw)"
        return "apply:?" + repr(t)[:80]

    def r_comb(t, names):
        return f"combine([{_keys(t[1], names)}])" if len(t) == 2 else "combine:?" + repr(t)[:80]

    return e, "G " + rgraph(dsk, names, {apply: r_apply, comb_fn: r_comb})


def fam_tree_graphs(ctx):
    """T2: TreeReduce._layer() dict == the transliterated loop, and the split_every property."""
    f = Family("graph_equality[TreeReduce._layer, TreeReduce.split_every]")
    nmax = 40
    ns = list(range(1, nmax + 1))
    if ctx.quick:
        ns = [1, 2, 3, 4, 5, 7, 8, 9, 10, 16, 17, 26, 27, 28, 33, 40]
    reqs, code, inputs, nontriv = [], [], [], []
    for n in ns:
        for se in [None, False, 2, 3, 4, 5, 6, 7, 8, 9]:
            for kw in (False, True):
                if ctx.quick and kw and n % 3:
                    continue
                try:
                    _, text = real_tree_layer(n, se, kw)
                except Exception as ex:  # noqa: BLE001
                    text = f"ERR {type(ex).__name__}"
                code.append(text)
                reqs.append(f"layer treereduce n={n} se={se} kw={b01(kw)}")
                inputs.append({"n": n, "split_every": se, "combine_kwargs": kw})
                k = 8 if se is None else se
                nontriv.append(bool(k) and n > k)
    # the property itself
    from dask_expr._reductions import TreeReduce

    fr = _frame(2)
    for v in [None, False, True, -3, -1, 0, 1, 2, 3, 8, 9, 100]:
        try:
            got = str(TreeReduce(fr, None, fr._meta, comb_fn, agg_fn, {}, {}, v).split_every)
        except Exception as ex:  # noqa: BLE001
            got = f"ERR {type(ex).__name__}"
        code.append(got)
        reqs.append(f"prop split_every v={int(v) if v is True else v}")
        inputs.append({"split_every_operand": repr(v)})
        nontriv.append(True)
    model = drive(reqs)
    f.compare(inputs, code, model, nontriv)
    for d in f.disagreements:
        if d:
            d["diff"] = first_diff(d["code"], d["model"])
    f.exhaustive = not ctx.quick
    f.note = f"n in {ns[0]}..{ns[-1]} ({len(ns)} values) x split_every in None,False,2..9 x combine_kwargs"
    return f


def _find(expr, cls):
    return [o for o in expr.walk() if isinstance(o, cls)]


def real_tree_from_api(n, se, what):
    """The TreeReduce node the public API lowers to (real combine/aggregate, real kwargs)."""
    import dask_expr as dx
    from dask.utils import apply
    from dask_expr._reductions import TreeReduce

    fr = dx.new_collection(_frame(n, ("x", "y")))
    q = {"sum": lambda: fr.x.sum(split_every=se), "count": lambda: fr.count(split_every=se),
         "nunique": lambda: fr.x.nunique(split_every=se), "max": lambda: fr.max(split_every=se)}[what]()
    low = q.expr.lower_completely()
    tr = _find(low, TreeReduce)
    if len(tr) != 1:
        return None, "ERR no-unique-TreeReduce"
    tr = tr[0]
    names = Names(tr._name, [tr.frame._name])

    def r_apply(t, names):
        f = t[1]
        if f == tr.combine and len(t) == 4 and len(t[2]) == 1 and t[3] == tr.combine_kwargs:
            return f"apply_combine([{_keys(t[2][0], names)}],kw)"
        if f == tr.aggregate and len(t) == 4 and len(t[2]) == 1 and t[3] == tr.aggregate_kwargs:
            return f"apply_aggregate([{_keys(t[2][0], names)}],kw)"
        return "apply:?" + repr(t)[:80]

    def r_task(t):
        if isinstance(t, tuple) and t and t[0] is apply:
            return r_apply(t, names)
        if isinstance(t, tuple) and len(t) == 2 and t[0] == tr.combine:
            return f"combine([{_keys(t[1], names)}])"
        return "?" + repr(t)[:80]

    lines = sorted({rkey(k, names) + "=" + r_task(v) for k, v in tr._layer().items()})
    return tr, "G " + "|".join(lines)


def fam_tree_api(ctx):
    """T2: the TreeReduce nodes the public reductions lower to have the modelled layer."""
    f = Family("graph_equality[public reductions -> TreeReduce._layer]")
    reqs, code, inputs, nontriv = [], [], [], []
    grid = [(n, se) for n in (1, 2, 5, 9, 17, 30) for se in (None, False, 2, 3, 8)]
    if ctx.quick:
        grid = grid[::2]
    for n, se in grid:
        for what in ("sum", "count", "nunique", "max"):
            se_node = se
            try:
                tr, text = real_tree_from_api(n, se, what)
                kw = bool(tr.combine_kwargs) if tr is not None else False
                if tr is not None:
                    # the node's own operand (some reductions do not forward the user's split_every)
                    se_node = tr.operand("split_every")
            except Exception as ex:  # noqa: BLE001
                text, kw = f"ERR {type(ex).__name__}: {str(ex)[:80]}", False
            code.append(text)
            reqs.append(f"layer treereduce n={n} se={se_node} kw={b01(kw)}")
            inputs.append({"n": n, "split_every": se, "reduction": what})
            nontriv.append(n > (se or 8) if se is not False else False)
    f.compare(inputs, code, drive(reqs), nontriv)
    return f


def real_cum_layer(n, op):
    import dask_expr as dx
    from dask.dataframe import methods
    from dask_expr._cumulative import CumulativeFinalize, _cum_aggregate_apply

    fr = dx.new_collection(_frame(n))
    low = getattr(fr.x, op)().expr.lower_completely()
    cf = _find(low, CumulativeFinalize)[0]
    names = _CumNames(cf._name, [cf.frame._name, cf.previous_partitions._name])
    want = getattr(methods, op + "_aggregate")

    def r_agg(t, names):
        _, agg, x, y, skipna = t
        extra = "" if (agg is want and skipna is True) else f",agg={getattr(agg, '__name__', agg)},skipna={skipna}"
        return f"cum_aggregate_apply({rkey(x, names)},{rkey(y, names)}{extra})"

    return cf, "G " + rgraph(cf._layer(), names, {_cum_aggregate_apply: r_agg})


def fam_cum_graphs(ctx):
    f = Family("graph_equality[CumulativeFinalize._layer]")
    reqs, code, inputs = [], [], []
    for n in range(1, 13):
        for op in (("cumsum", "cummax") if ctx.quick else ("cumsum", "cumprod", "cummax", "cummin")):
            try:
                _, text = real_cum_layer(n, op)
            except Exception as ex:  # noqa: BLE001
                text = f"ERR {type(ex).__name__}: {str(ex)[:80]}"
            code.append(text)
            reqs.append(f"layer cumfinalize n={n}")
            inputs.append({"n": n, "op": op})
    f.compare(inputs, code, drive(reqs), [i["n"] > 1 for i in inputs])
    f.exhaustive = True
    f.note = "n <= 12, all four cumulative operations (through the public API lowering)"
    return f


def real_overlap_layer(n, before, after):
    from dask.utils import M
    from dask_expr._expr import CreateOverlappingPartitions, _combined_parts

    fr = _frame(n)
    e = CreateOverlappingPartitions(fr, before, after)
    names = Names(e._name, [fr._name])

    def r_tail(t, names):
        return f"tail({rkey(t[1], names)},{t[2]})"

    def r_head(t, names):
        return f"head({rkey(t[1], names)},{t[2]})"

    def r_comb(t, names):
        _, pr, cur, nx, b, a = t
        o = lambda k: "None" if k is None else rkey(k, names)  # noqa: E731
        return f"combined_parts({o(pr)},{rkey(cur, names)},{o(nx)},{b},{a})"

    return e, "G " + rgraph(e._layer(), names, {M.tail: r_tail, M.head: r_head, _combined_parts: r_comb})


def fam_overlap_graphs(ctx):
    f = Family("graph_equality[CreateOverlappingPartitions._layer]")
    reqs, code, inputs, nontriv = [], [], [], []
    for n in range(1, 9):
        for before in range(4):
            for after in range(4):
                try:
                    _, text = real_overlap_layer(n, before, after)
                except Exception as ex:  # noqa: BLE001
                    text = f"ERR {type(ex).__name__}: {str(ex)[:80]}"
                code.append(text)
                reqs.append(f"layer overlap n={n} before={before} after={after}")
                inputs.append({"n": n, "before": before, "after": after})
                nontriv.append(n > 1 and (before or after))
    f.compare(inputs, code, drive(reqs), nontriv)
    for d in f.disagreements:
        if d:
            d["diff"] = first_diff(d["code"], d["model"])
    f.exhaustive = True
    f.note = "n <= 8, before/after in 0..3"
    return f


def _blockwise_exprs(n):
    """Expressions whose (unfused) lowered form contains Blockwise nodes of varied shapes."""
    import dask_expr as dx

    fr = dx.new_collection(_frame(n, ("a", "b")))
    one = dx.new_collection(_frame(1, ("a", "b")))
    return {
        "series+scalar_reduction": fr.a + fr.a.sum(),
        "frame-series_reduction": fr - fr.sum(),
        "series+series": fr.a + fr.b,
        "series+literal": fr.a + 1,
        "where": fr.a.where(fr.b > 2, 7),
        "assign": fr.assign(c=fr.a * 2, d=fr.b.max()),
        "mask_frame": fr[fr.a > fr.a.mean()],
        "map_partitions_single": fr.map_partitions(lambda x, y: x, one, meta=fr._meta),
        "clip_fillna": fr.a.clip(lower=1, upper=5).fillna(0),
        "isin_astype": fr.b.isin([1, 2]).astype("int64"),
        "cumsum_stages": fr.a.cumsum(),
        "shift": fr.a.shift(1),
    }


def render_blockwise(e):
    """-> (request, rendered real layer) for one Blockwise node (default _task / _layer only)."""
    from dask.utils import apply
    from dask_expr._expr import Blockwise, Expr

    deps = []
    for a in e._args:
        if isinstance(a, Expr) and a._name not in deps:
            deps.append(a._name)
    names = Names(e._name, deps)
    args, lit = [], 0
    lits = {}
    for pos, a in enumerate(e._args):
        if isinstance(a, Expr):
            args.append(f"e:{deps.index(a._name)}:{a.npartitions}:{a.ndim}")
        else:
            lits[pos] = f"L{lit}"
            args.append(f"l:L{lit}")
            lit += 1
    anynd = type(e)._broadcast_dep is not Blockwise._broadcast_dep
    req = f"layer blockwise n={e.npartitions} ndim={e.ndim} any={b01(anynd)} args={';'.join(args) or '-'}"

    def r_task(t):
        if t and t[0] is apply:
            if len(t) != 4 or t[1] is not e.operation or t[3] != e._kwargs:
                return "apply:?" + repr(t)[:60]
            targs = list(t[2])
        else:
            if t[0] is not e.operation and t[0] != e.operation:
                return "op:?" + repr(t)[:60]
            targs = list(t[1:])
        if len(targs) != len(e._args):
            return "arity:?"
        out = []
        for pos, x in enumerate(targs):
            if pos in lits:
                same = x is e._args[pos]
                try:
                    same = same or bool(x == e._args[pos])
                except Exception:  # noqa: BLE001
                    pass
                out.append(lits[pos] if same else "L?")
            else:
                out.append(rkey(x, names))
        return "op(" + ",".join(out) + ")"

    lines = sorted({rkey(k, names) + "=" + r_task(v) for k, v in e._layer().items()})
    return req, "G " + "|".join(lines)


def fam_blockwise_tasks(ctx):
    """T2: Blockwise._task / _blockwise_arg / _broadcast_dep / default _layer of real expressions."""
    from dask_expr._core import Expr as CoreExpr
    from dask_expr._expr import Blockwise

    f = Family("graph_equality[Blockwise._task, _blockwise_arg, _broadcast_dep]")
    reqs, code, inputs, nontriv = [], [], [], []
    classes = set()
    for n in ((1, 3) if ctx.quick else (1, 2, 3, 5)):
        for name, q in _blockwise_exprs(n).items():
            low = q.expr.lower_completely()
            for node in low.walk():
                if not isinstance(node, Blockwise):
                    continue
                if type(node)._task is not Blockwise._task or type(node)._layer is not CoreExpr._layer:
                    continue
                if type(node)._blockwise_arg is not Blockwise._blockwise_arg:
                    continue
                try:
                    req, text = render_blockwise(node)
                except Exception as ex:  # noqa: BLE001
                    req, text = "layer blockwise n=0 ndim=0 any=0 args=-", f"ERR {type(ex).__name__}: {str(ex)[:80]}"
                reqs.append(req)
                code.append(text)
                inputs.append({"expr": name, "n": n, "class": type(node).__name__, "request": req})
                nontriv.append(any(a.startswith("e:") and a.split(":")[2] == "1" for a in req.split("args=")[1].split(";")) and n > 1)
                classes.add(type(node).__name__)
    f.compare(inputs, code, drive(reqs), nontriv)
    for d in f.disagreements:
        if d:
            d["diff"] = first_diff(d["code"], d["model"])
    f.note = f"{len(classes)} Blockwise classes with the default _task: {sorted(classes)[:30]}"
    return f


# --------------------------------------------------------------------------- T4 helpers


def _rl(xs):
    return ",".join(str(int(x)) for x in xs) or "-"


def fam_helpers(ctx):
    """T4: the helper functions the task language abstracts agree with their Lean specifications."""
    import toolz
    from dask.dataframe import methods
    from dask.dataframe.rolling import CombinedOutput, overlap_chunk
    from dask.utils import M
    from dask_expr._cumulative import TakeLast, _cum_aggregate_apply
    from dask_expr._expr import _combined_parts

    f = Family("helper_specs[partition_all, _cum_aggregate_apply, TakeLast, M.tail, _combined_parts, overlap_chunk, cumulative pipeline]")
    rng = ctx.rng
    reqs, code, inputs = [], [], []

    def add(req, got, inp):
        reqs.append(req)
        code.append(got)
        inputs.append(inp)

    for k in range(1, 10):
        for n in range(0, 25 if ctx.quick else 45):
            got = ";".join(_rl(b) for b in toolz.partition_all(k, list(range(n))))
            add(f"spec chunks k={k} n={n}", got, ("partition_all", k, n))
    aggs = {"sum": (methods.cumsum_aggregate, "cumsum"), "prod": (methods.cumprod_aggregate, "cumprod"),
            "max": (methods.cummax_aggregate, "cummax"), "min": (methods.cummin_aggregate, "cummin")}

    def ser(vals):
        return pd.Series(np.array(vals, dtype="int64"), name="x")

    for _ in range(120 if ctx.quick else 1200):
        opn = rng.choice(list(aggs))
        agg, meth = aggs[opn]
        x = [rng.randint(0, 6) for _ in range(rng.randint(0, 4))]
        xkind = rng.choice(["series", "carry", "none"])
        ykind = rng.choice(["carry", "none"])
        xv = None if xkind == "none" else (ser(x) if xkind == "series" else np.int64(rng.randint(0, 6)))
        yv = None if ykind == "none" else np.int64(rng.randint(0, 6))
        got = _cum_aggregate_apply(agg, xv, yv, True)
        gs = "None" if got is None else _rl(got.tolist() if hasattr(got, "tolist") and getattr(got, "ndim", 0) else [got])
        xs = "None" if xv is None else _rl(x if xkind == "series" else [xv])
        add(f"spec cumagg op={opn} x={xs} y={'None' if yv is None else int(yv)}", gs, ("cum_aggregate_apply", opn, xs, str(yv)))
        # TakeLast of the per-partition cumulative result
        rows = [rng.randint(0, 6) for _ in range(rng.randint(0, 4))]
        ch = getattr(ser(rows), meth)()
        tl = TakeLast.operation(ch, True)
        add(f"spec takelast op={opn} rows={_rl(rows)}", "None" if tl is None else _rl([tl]), ("TakeLast", opn, rows))
        add(f"spec cum op={opn} rows={_rl(rows)}", _rl(ch.tolist()), ("cum", opn, rows))
    for _ in range(80 if ctx.quick else 600):
        rows = [rng.randint(0, 9) for _ in range(rng.randint(0, 6))]
        n = rng.randint(1, 4)
        add(f"spec tail n={n} rows={_rl(rows)}", _rl(M.tail(ser(rows), n).tolist()), ("tail", n, rows))
        before, after = rng.randint(0, 3), rng.randint(0, 3)
        pr = None if (before == 0 or rng.random() < 0.3) else [rng.randint(0, 9) for _ in range(rng.choice([before, before, max(before - 1, 0), before + 1]))]
        nx = None if (after == 0 or rng.random() < 0.3) else [rng.randint(0, 9) for _ in range(rng.choice([after, after, max(after - 1, 0), after + 1]))]
        cur = [rng.randint(0, 9) for _ in range(rng.randint(0, 4))]
        o = lambda l: None if l is None else ser(l)  # noqa: E731
        try:
            comb, pl, nl = _combined_parts(o(pr), ser(cur), o(nx), before, after)
            got = f"{_rl(comb.tolist())}|{pl}|{nl}"
        except NotImplementedError as ex:
            got = "ERR NotImplementedError" if "Partition size is less than overlapping" in str(ex) else "ERR other"
        s = lambda l: "None" if l is None else _rl(l)  # noqa: E731
        add(f"spec combinedparts before={before} after={after} prev={s(pr)} cur={_rl(cur)} next={s(nx)}", got,
            ("combined_parts", before, after, pr, cur, nx))
        # overlap_chunk trimming with func = identity on well-formed CombinedOutputs
        prw = [] if before == 0 or rng.random() < 0.3 else [rng.randint(0, 9) for _ in range(before)]
        nxw = [] if after == 0 or rng.random() < 0.3 else [rng.randint(0, 9) for _ in range(after)]
        curw = [1000 + v for v in cur]
        co = CombinedOutput((ser(prw + curw + nxw), len(prw) or None, len(nxw) or None))
        got = overlap_chunk(lambda d: d, before, after, co)
        add(f"spec overlapchunk before={before} after={after} prev={_rl(prw)} cur={_rl(cur)} next={_rl(nxw)}",
            _rl(got.tolist()), ("overlap_chunk", before, after, prw, cur, nxw))
    # whole cumulative pipeline, executed for real on layouts with empty partitions
    import dask_expr as dx

    for _ in range(25 if ctx.quick else 200):
        parts = [[rng.randint(0, 5) for _ in range(rng.choice([0, 0, 1, 2, 3]))] for _ in range(rng.randint(1, 6))]
        opn = rng.choice(list(aggs))
        frames = [pd.DataFrame({"x": np.array(p, dtype="int64")}) for p in parts]
        coll = dx.from_map(e2e._PartGetter(frames), list(range(len(frames))), meta=frames[0].iloc[:0])
        r = e2e.run_or_err(lambda: e2e.compute_partitions(getattr(coll.x, aggs[opn][1])()))
        got = ";".join(_rl(p.tolist()) for p in r[1]) if r[0] == "ok" else f"ERR {r[1]}"
        add(f"eval cum op={opn} parts={';'.join(_rl(p) for p in parts)}", got, ("cumulative pipeline", opn, parts))
    f.compare(inputs, code, drive(reqs))
    return f


_REDUCTIONS = {
    # name -> (query on a dask/pandas frame with int column a (dups), int b, str s (nulls), bool t)
    "sum": lambda d: d[["a", "b"]].sum(),
    "prod": lambda d: d[["a", "b"]].prod(),
    "count": lambda d: d.count(),
    "min": lambda d: d[["a", "b", "t"]].min(),
    "max": lambda d: d[["a", "b", "t"]].max(),
    "any": lambda d: d[["a", "t"]].any(),
    "all": lambda d: d[["a", "t"]].all(),
    "size": lambda d: d.size,
    "len": lambda d: len(d),
    "s_sum": lambda d: d.a.sum(),
    "s_count": lambda d: d.s.count(),
    "s_min_str": lambda d: d.s.min(),
    "s_max_str": lambda d: d.s.max(),
    "nunique": lambda d: d.a.nunique(),
    "nunique_str": lambda d: d.s.nunique(),
    "value_counts": lambda d: d.a.value_counts(),
    "value_counts_str": lambda d: d.s.value_counts(),
    "unique": lambda d: d.a.unique(),
    "value_counts_tree": lambda d: d.a.value_counts(split_out=1) if hasattr(d, "expr") else d.a.value_counts(),
    "unique_tree": lambda d: d.a.unique(split_out=1) if hasattr(d, "expr") else d.a.unique(),
    "drop_duplicates_tree": lambda d: d[["a", "t"]].drop_duplicates(split_out=1) if hasattr(d, "expr") else d[["a", "t"]].drop_duplicates(),
    "drop_duplicates": lambda d: d[["a", "t"]].drop_duplicates(),
    "nlargest": lambda d: d.nlargest(2, "b"),
    "nsmallest": lambda d: d.b.nsmallest(3),
    "idxmax": lambda d: d.b.idxmax(),
    "idxmin": lambda d: d[["a", "b"]].idxmin(),
    "isin_any": lambda d: d.a.isin([1, 2]).sum(),
    "mode": lambda d: d.a.mode(),
    "gb_sum": lambda d: d.groupby("a").b.sum(),
    "gb_count": lambda d: d.groupby("a").count(),
    "gb_min_str": lambda d: d.groupby("a").s.min(),
    "gb_agg": lambda d: d.groupby("a").agg({"b": ["sum", "max"], "t": "min"}),
    "gb_nunique": lambda d: d.groupby("a").b.nunique(),
    "gb_size": lambda d: d.groupby("a").size(),
    "gb_first": lambda d: d.groupby("a").b.first(),
    "gb_last": lambda d: d.groupby("a").b.last(),
}
# row order unspecified by dask-expr (hash/tree order of groups, value_counts ties, unique)
_UNORDERED_RED = {"value_counts", "value_counts_str", "unique", "drop_duplicates", "mode", "nlargest", "nsmallest",
                  "value_counts_tree", "unique_tree", "drop_duplicates_tree"} | {
    k for k in _REDUCTIONS if k.startswith("gb_")}
_NOINDEX_RED = {"unique", "drop_duplicates", "mode", "unique_tree", "drop_duplicates_tree"}


def _as_pandas(x, name=None):
    return pd.Series(x, name=name) if isinstance(x, np.ndarray) else x


def _law_frame(rng, n):
    a = [rng.randint(0, 3) for _ in range(n)]
    return pd.DataFrame({
        "a": np.array(a, dtype="int64"),
        "b": np.array([rng.randint(-4, 9) for _ in range(n)], dtype="int64"),
        "s": pd.array([None if rng.random() < 0.2 else "s%d" % rng.randint(0, 3) for _ in range(n)], dtype="object"),
        "t": np.array([rng.random() < 0.5 for _ in range(n)], dtype=bool),
    }, index=pd.Index(np.arange(n, dtype="int64") * 2 + 1))


def check_reduction_law(name, pdf, cuts, batching_seed):
    """Homomorphism + spec law of the (chunk, combine, aggregate) triple the query lowers to.
    -> None | description of the violated law."""
    import random

    import dask
    import dask_expr as dx
    from dask_expr._reductions import TreeReduce

    q = _REDUCTIONS[name]
    coll = e2e.frame_from_cuts(pdf, cuts, known_divisions=False)
    built = q(coll)
    if not hasattr(built, "expr"):
        return None
    low = built.expr.optimize(fuse=False)
    trs = _find(low, TreeReduce)
    if not trs:
        return None
    rnd = random.Random(batching_seed)
    for tr in trs:
        g = dict(tr.frame.__dask_graph__())
        chunks = list(dask.get(g, tr.frame.__dask_keys__()))
        comb = lambda xs: tr.combine(list(xs), **tr.combine_kwargs)  # noqa: E731
        agg = lambda xs: tr.aggregate(list(xs), **tr.aggregate_kwargs)  # noqa: E731
        flat = agg(chunks)
        for _ in range(3):
            # random batching into non-empty consecutive batches, possibly nested twice
            bs, i = [], 0
            while i < len(chunks):
                k = rnd.randint(1, 3)
                bs.append(chunks[i : i + k])
                i += k
            lvl = [comb(b) for b in bs]
            if rnd.random() < 0.5 and len(lvl) > 1:
                lvl = [comb(lvl[:1]), comb(lvl[1:])]
            got = agg(lvl)
            if not e2e.same(got, flat, sort_rows=name in _UNORDERED_RED):
                return (f"aggregate(combine batches) != aggregate(all chunks) for TreeReduce {tr._name.split('-')[0]}: "
                        f"{e2e.describe(got, 5)} vs {e2e.describe(flat, 5)}")
    return None


def fam_reduction_laws(ctx):
    """T4: every reduction's (chunk, combine, aggregate) satisfies the law C02_tree assumes, and the
    un-batched aggregate equals pandas on the concatenation."""
    f = Family("reduction_laws[chunk/combine/aggregate homomorphism; aggregate∘chunk = pandas]")
    rng = ctx.rng
    names = list(_REDUCTIONS)
    rounds = 2 if ctx.quick else 10
    ins, code, model, nontriv = [], [], [], []
    for name in names:
        for r in range(rounds):
            n = rng.choice([0, 1, 3, 5, 7])
            pdf = _law_frame(rng, n)
            cuts = sorted(rng.sample(range(0, n + 1), min(n + 1, rng.randint(0, 3)))) if n else []
            cuts = [0] + [c for c in cuts if 0 < c < n] + [n]
            if rng.random() < 0.4:
                pos = rng.randrange(len(cuts))
                cuts.insert(pos, cuts[pos])  # an empty partition
            if len(cuts) < 2:
                cuts = [0, n]
            seed = rng.randrange(10**6)
            try:
                law = check_reduction_law(name, pdf, cuts, seed)
                want = _REDUCTIONS[name](pdf)
                got = _REDUCTIONS[name](e2e.frame_from_cuts(pdf, cuts, known_divisions=False))
                got = got.compute() if hasattr(got, "compute") else got
                spec_ok = e2e.same(_as_pandas(got), _as_pandas(want, getattr(got, 'name', None)), sort_rows=name in _UNORDERED_RED, drop_index=name in _NOINDEX_RED)
                out = "OK" if (law is None and spec_ok) else (law or f"aggregate(chunks) != pandas: {e2e.describe(got, 5)} vs {e2e.describe(want, 5)}")
            except Exception as ex:  # noqa: BLE001
                out = f"ERR {type(ex).__name__}: {str(ex)[:120]}"
                # pandas itself refusing (e.g. idxmax of an empty frame) is not a law violation
                try:
                    _REDUCTIONS[name](pdf)
                except Exception:  # noqa: BLE001
                    out = "OK"
            ins.append({"reduction": name, "rows": pdf.to_dict("list"), "cuts": cuts, "seed": seed})
            code.append(out)
            model.append("OK")
            nontriv.append(len(cuts) > 2)
    f.compare(ins, code, model, nontriv)
    f.note = f"{len(names)} reductions x {rounds} random frames (nulls, duplicates, empty partitions); integer/string/bool data only"
    return f


def families(ctx):
    return [fam_tree_graphs, fam_tree_api, fam_cum_graphs, fam_overlap_graphs, fam_blockwise_tasks, fam_helpers,
            fam_reduction_laws]


# --------------------------------------------------------------------------- end-to-end support / search
#
# A case = operator x table x layout(s) x known/unknown divisions.  The same function runs on the pandas
# table (oracle) and on the dask-expr collection built with exactly the requested partitions.


def _dd(x):
    return hasattr(x, "expr")


def _gb_apply(d):
    f = lambda g: g.assign(r=g.a - g.a.min())[["a", "r"]]  # noqa: E731
    if _dd(d):
        meta = pd.DataFrame({"a": pd.Series([], dtype="int64"), "r": pd.Series([], dtype="int64")})
        return d.groupby("b")[["a"]].apply(f, meta=meta)
    return d.groupby("b")[["a"]].apply(f)


def _gb_apply_series(d):
    f = lambda s: s - s.min()  # noqa: E731
    if _dd(d):
        return d.groupby("b").a.apply(f, meta=("a", "int64"))
    return d.groupby("b").a.apply(f)


def _concat(xs, **kw):
    if _dd(xs[0]):
        import dask_expr as dx

        return dx.concat(xs, **kw)
    return pd.concat(xs, **kw)


def _merge(l, r, **kw):
    # dask-only keywords are dropped for pandas
    if not _dd(l):
        kw = {k: v for k, v in kw.items() if k not in ("shuffle_method", "broadcast", "npartitions")}
        if kw.get("how") == "leftsemi":
            kw.pop("how")
            lk = kw.get("on") or kw.get("left_on")
            rk = kw.get("on") or kw.get("right_on")
            return l[l[lk].isin(r[rk])]
    return l.merge(r, **kw)


def _op(name, fn, family, table="T_int", unordered=False, noindex=False, binary=None, refusal=None, window=None):
    return {"name": name, "fn": fn, "family": family, "table": table, "unordered": unordered, "noindex": noindex,
            "binary": binary, "refusal": refusal or (), "window": window}


# binary: "right" = second table T_right (independent layout); "same" = the same table with an independent layout
_ALIGN_REFUSAL = ("Not all divisions are known", "unknown division", "known divisions",
                  "Concatenated DataFrames of different lengths")
_ROLLING_REFUSAL = ("Can only rolling dataframes with known divisions",)
_FILL_REFUSAL = ("All NaN partition encountered in `fillna`",)
# documented warning of Concat._lower(axis=1) for unknown divisions with equal partition counts
_ASSUMED_ALIGNED_WARNING = "assuming that the indices of each dataframes"

OPS = [
    # ---- elementwise / row-local
    _op("add1", lambda t: t["L"] + 1, "elementwise"),
    _op("a_plus_b", lambda t: t["L"].a + t["L"].b, "elementwise"),
    _op("abs_clip", lambda t: (t["L"].b - 2).abs().clip(lower=1), "elementwise"),
    _op("fillna_astype", lambda t: t["L"].c.fillna(-1).astype("int64"), "elementwise"),
    _op("isna_where", lambda t: t["L"].a.where(t["L"].c.isna(), -t["L"].a), "elementwise"),
    _op("mask", lambda t: t["L"].mask(t["L"].a > 3, 0), "elementwise"),
    _op("assign_rename", lambda t: t["L"].assign(z=t["L"].a * t["L"].b).rename(columns={"a": "A"}), "elementwise"),
    _op("isin_between", lambda t: t["L"].a.isin([1, 4, 6]) | t["L"].b.between(2, 3), "elementwise"),
    _op("str_upper", lambda t: t["L"].k.str.upper() + t["L"].s.fillna("?"), "elementwise", table="T_str"),
    _op("cat_codes", lambda t: t["L"].cat.astype(str) + "_" + t["L"].k, "elementwise", table="T_str"),
    _op("dt_parts", lambda t: t["L"].index.to_series().dt.day + t["L"].a, "elementwise", table="T_dt"),
    _op("round_neg", lambda t: (t["L"].a * 2).round().astype("int64") + t["L"].b, "elementwise", table="T_neg"),
    _op("filter", lambda t: t["L"][t["L"].a % 2 == 0], "filter"),
    _op("filter_isna", lambda t: t["L"][t["L"].c.isna() | (t["L"].b > 1)], "filter"),
    _op("dropna", lambda t: t["L"].dropna(), "filter"),
    _op("filter_reduction_operand", lambda t: t["L"][t["L"].a > t["L"].b.max()], "broadcast"),
    _op("minus_sum", lambda t: t["L"][["a", "b"]] - t["L"][["a", "b"]].sum(), "broadcast"),
    _op("div_count", lambda t: t["L"].a * t["L"].a.count(), "broadcast"),
    _op("proj_idx", lambda t: t["L"].index, "projection"),
    # ---- reductions
    _op("sum", lambda t: t["L"][["a", "b"]].sum(), "reduction"),
    _op("sum_split2", lambda t: t["L"][["a", "b"]].sum(split_every=2) if _dd(t["L"]) else t["L"][["a", "b"]].sum(), "reduction"),
    _op("prod", lambda t: t["L"].b.prod(), "reduction"),
    _op("count", lambda t: t["L"].count(), "reduction"),
    _op("count_split", lambda t: t["L"].count(split_every=3) if _dd(t["L"]) else t["L"].count(), "reduction"),
    _op("min_max", lambda t: t["L"].min() + t["L"].max(), "reduction"),
    _op("min_str", lambda t: t["L"].s.min(), "reduction", table="T_str"),
    _op("max_dt_index", lambda t: t["L"].index.max(), "reduction", table="T_dt"),
    _op("any_all", lambda t: (t["L"].b > 2).any() & (t["L"].a > 0).all(), "reduction"),
    _op("nunique", lambda t: t["L"].b.nunique(), "reduction"),
    _op("nunique_str", lambda t: t["L"].s.nunique(), "reduction", table="T_str"),
    _op("size_len", lambda t: len(t["L"]) + t["L"].size, "reduction"),
    _op("idxmax", lambda t: t["L"].a.idxmax(), "reduction"),
    _op("idxmin_frame", lambda t: t["L"][["a", "b"]].idxmin(), "reduction"),
    _op("filter_then_sum", lambda t: t["L"][t["L"].a > 4].b.sum(), "reduction"),
    _op("value_counts", lambda t: t["L"].b.value_counts(), "value_counts", unordered=True),
    _op("value_counts_str", lambda t: t["L"].k.value_counts(), "value_counts", table="T_str", unordered=True),
    _op("value_counts_dropna", lambda t: t["L"].c.value_counts(dropna=False), "value_counts", unordered=True),
    _op("unique", lambda t: pd.Series(t["L"].b.unique(), name="b") if not _dd(t["L"]) else t["L"].b.unique(), "unique", unordered=True, noindex=True),
    _op("unique_str", lambda t: pd.Series(t["L"].k.unique(), name="k") if not _dd(t["L"]) else t["L"].k.unique(), "unique", table="T_str", unordered=True, noindex=True),
    _op("drop_duplicates", lambda t: t["L"][["b"]].drop_duplicates(), "drop_duplicates", unordered=True, noindex=True),
    _op("drop_duplicates_subset", lambda t: t["L"].drop_duplicates(subset=["b"])[["b"]], "drop_duplicates", unordered=True, noindex=True),
    _op("drop_duplicates_series", lambda t: t["L"].k.drop_duplicates(), "drop_duplicates", table="T_str", unordered=True, noindex=True),
    _op("nlargest", lambda t: t["L"].nlargest(3, "a"), "nlargest"),
    _op("nsmallest_series", lambda t: t["L"].a.nsmallest(2), "nlargest"),
    _op("nlargest_neg", lambda t: t["L"].nlargest(2, "a"), "nlargest", table="T_neg"),
    # ---- groupby
    _op("gb_sum", lambda t: t["L"].groupby("b").a.sum(), "groupby_agg", unordered=True),
    _op("gb_count_frame", lambda t: t["L"].groupby("b").count(), "groupby_agg", unordered=True),
    _op("gb_min_max", lambda t: t["L"].groupby("b").agg({"a": ["min", "max"], "c": "count"}), "groupby_agg", unordered=True),
    _op("gb_first_last", lambda t: t["L"].groupby("b").a.first() + t["L"].groupby("b").a.last(), "groupby_agg", unordered=True),
    # a list selection fixes the column ORDER of the result (D100: mean/var/std used the frame's order)
    _op("gb_slice_rev_mean", lambda t: t["L"].groupby("b")[["c", "a"]].mean(), "groupby_agg", unordered=True),
    _op("gb_slice_rev_var", lambda t: t["L"].groupby("b")[["c", "a"]].var(), "groupby_agg", unordered=True),
    _op("gb_slice_rev_sum", lambda t: t["L"].groupby("b")[["c", "a"]].sum(), "groupby_agg", unordered=True),
    # covariance per group: complete columns, a column with missing values (pandas: pairwise complete observations),
    # a list selection in another order than the frame's
    _op("gb_cov_complete", lambda t: t["L"].assign(z=t["L"].a * t["L"].a % 5).groupby("b")[["a", "z"]].cov(), "groupby_agg", unordered=True),
    _op("gb_cov_missing", lambda t: t["L"].groupby("b")[["a", "c"]].cov(), "groupby_agg", unordered=True),
    _op("gb_cov_slice_rev", lambda t: t["L"].assign(z=t["L"].a * t["L"].a % 5).groupby("b")[["z", "a"]].cov(), "groupby_agg", unordered=True),
    # set_index on an already sorted column with duplicates (equal keys may straddle a partition border): label
    # selections trust the divisions
    _op("set_index_sorted_dups_loc", lambda t: t["L"].assign(s=t["L"].a // 2).set_index("s").loc[2:3], "set_index", unordered=True),
    _op("set_index_sorted_dups_loc_lo", lambda t: t["L"].assign(s=(t["L"].a + 1) // 3).set_index("s").loc[:1], "set_index", unordered=True),
    # head/tail of a sort that is not "plain" (D107): missing values first, ignore_index
    _op("sort_na_first_head", lambda t: (lambda x: x.head(3, npartitions=-1) if _dd(x) else x.head(3))(t["L"].sort_values(["c", "a"], na_position="first")), "sort"),
    _op("sort_na_first_desc_tail", lambda t: t["L"].sort_values(["c", "a"], ascending=False, na_position="first").tail(2), "sort"),
    _op("sort_ignore_index_head", lambda t: (lambda x: x.head(3, npartitions=-1) if _dd(x) else x.head(3))(t["L"].sort_values("a", ascending=False, ignore_index=True)), "sort",
        noindex=True),
    _op("sort_na_first", lambda t: t["L"].sort_values(["c", "a"], na_position="first"), "sort"),
    _op("sort_na_first_desc", lambda t: t["L"].sort_values(["c", "a"], ascending=False, na_position="first"), "sort"),
    _op("gb_size", lambda t: t["L"].groupby("b").size(), "groupby_agg", unordered=True),
    _op("gb_nunique", lambda t: t["L"].groupby("b").a.nunique(), "groupby_agg", unordered=True),
    _op("gb_str_key", lambda t: t["L"].groupby("k").v.sum(), "groupby_agg", table="T_str", unordered=True),
    _op("gb_cat_key", lambda t: t["L"].groupby("cat", observed=True).v.max(), "groupby_agg", table="T_str", unordered=True),
    _op("gb_two_keys", lambda t: t["L"].groupby(["k", "cat"], observed=True).v.sum().reset_index(), "groupby_agg", table="T_str", unordered=True, noindex=True),
    _op("gb_split_out", lambda t: t["L"].groupby("b").a.sum(split_out=2) if _dd(t["L"]) else t["L"].groupby("b").a.sum(), "groupby_agg", unordered=True),
    _op("gb_sum_shuffle_disk", lambda t: t["L"].groupby("b").a.sum(split_out=3, shuffle_method="disk") if _dd(t["L"]) else t["L"].groupby("b").a.sum(), "groupby_agg", unordered=True),
    _op("gb_apply", lambda t: _gb_apply(t["L"]), "groupby_apply", unordered=True),
    _op("gb_apply_series", lambda t: _gb_apply_series(t["L"]), "groupby_apply", unordered=True),
    _op("gb_transform", lambda t: t["L"].groupby("b").a.transform("sum", **({"meta": ("a", "int64")} if _dd(t["L"]) else {})), "groupby_transform", unordered=True),
    _op("gb_cumsum", lambda t: t["L"].groupby("b").a.cumsum(), "groupby_transform", unordered=True),
    _op("gb_shift", lambda t: t["L"].groupby("b").a.shift(1, **({"meta": ("a", "float64")} if _dd(t["L"]) else {})), "groupby_transform", unordered=True),
    # ---- sort / set_index
    _op("sort_b_a", lambda t: t["L"].sort_values(["b", "a"]), "sort"),
    _op("sort_a_desc", lambda t: t["L"].sort_values("a", ascending=False), "sort"),
    _op("sort_c_nafirst", lambda t: t["L"].sort_values(["c", "a"], na_position="first"), "sort"),
    _op("sort_str", lambda t: t["L"].sort_values(["k", "v"]), "sort", table="T_str"),
    _op("set_index_a", lambda t: t["L"].set_index("a"), "set_index", unordered=True),
    _op("set_index_b", lambda t: t["L"].set_index("b"), "set_index", unordered=True),
    _op("set_index_sorted", lambda t: t["L"].set_index("a", sorted=True) if _dd(t["L"]) else t["L"].set_index("a"), "set_index"),
    _op("set_index_str", lambda t: t["L"].set_index("k"), "set_index", table="T_str", unordered=True),
    _op("reset_index", lambda t: t["L"].reset_index(), "index", noindex=True),
    # ---- cumulative
    _op("cumsum", lambda t: t["L"][["a", "b"]].cumsum(), "cumulative"),
    _op("cumsum_nulls", lambda t: t["L"][["a", "c"]].cumsum(), "cumulative"),
    _op("cumprod_series", lambda t: t["L"].b.cumprod(), "cumulative"),
    _op("cummax_cummin", lambda t: t["L"].b.cummax() - t["L"].b.cummin(), "cumulative"),
    _op("cummax_nulls", lambda t: t["L"][["c", "b"]].cummax(), "cumulative"),
    _op("cumsum_skipna_false", lambda t: t["L"].c.cumsum(skipna=False), "cumulative"),
    _op("cumsum_after_filter", lambda t: t["L"][t["L"].a > 3][["a", "b"]].cumsum(), "cumulative"),
    _op("cummax_one_column", lambda t: t["L"][["b"]].cummax(), "cumulative"),
    _op("cumcount_like", lambda t: (t["L"].b * 0 + 1).cumsum(), "cumulative"),
    # ---- windows
    _op("shift1", lambda t: t["L"][["a", "b"]].shift(1), "overlap", window=(1, 0)),
    _op("shift_m1", lambda t: t["L"].a.shift(-1), "overlap", window=(0, 1)),
    _op("shift2", lambda t: t["L"].a.shift(2), "overlap", window=(2, 0)),
    _op("shift1_plus_shift2", lambda t: t["L"].a.shift(1) + t["L"].a.shift(2), "overlap", window=(2, 0)),
    _op("diff1", lambda t: t["L"][["a", "b"]].diff(1), "overlap", window=(1, 0)),
    _op("diff1_plus_diff2", lambda t: t["L"].b.diff(1) - t["L"].b.diff(2), "overlap", window=(2, 0)),
    _op("diff_m1", lambda t: t["L"].b.diff(-1), "overlap", window=(0, 1)),
    _op("ffill", lambda t: t["L"].c.ffill(), "overlap", refusal=_FILL_REFUSAL, window=(1, 0)),
    _op("bfill", lambda t: t["L"].c.bfill(), "overlap", refusal=_FILL_REFUSAL, window=(0, 1)),
    _op("ffill_limit", lambda t: t["L"].c.ffill(limit=1), "overlap", refusal=_FILL_REFUSAL, window=(1, 0)),
    _op("rolling_sum2", lambda t: t["L"].a.rolling(2).sum(), "overlap", refusal=_ROLLING_REFUSAL, window=(1, 0)),
    _op("rolling_max3", lambda t: t["L"][["a", "b"]].rolling(3).max(), "overlap", refusal=_ROLLING_REFUSAL, window=(2, 0)),
    _op("rolling_minp", lambda t: t["L"].b.rolling(3, min_periods=1).min(), "overlap", refusal=_ROLLING_REFUSAL, window=(2, 0)),
    _op("rolling_center", lambda t: t["L"].a.rolling(3, center=True).sum(), "overlap", refusal=_ROLLING_REFUSAL, window=(1, 1)),
    _op("rolling_count_nulls", lambda t: t["L"].c.rolling(2).count(), "overlap", refusal=_ROLLING_REFUSAL, window=(1, 0)),
    _op("map_overlap", lambda t: t["L"].a.map_overlap(lambda s: s.shift(1) + s.shift(-1), 1, 1, meta=("a", "float64")) if _dd(t["L"])
        else t["L"].a.shift(1) + t["L"].a.shift(-1), "overlap", window=(1, 1)),
    # ---- loc / head / tail
    _op("loc_slice", lambda t: t["L"].loc[2:6], "loc"),
    _op("loc_open", lambda t: t["L"].loc[4:], "loc"),
    _op("loc_label", lambda t: t["L"].loc[[4]] if not _dd(t["L"]) else t["L"].loc[4:4], "loc"),
    _op("loc_mask_cols", lambda t: t["L"].loc[t["L"].b > 1, ["a", "c"]], "loc"),
    _op("loc_dup_index", lambda t: t["L"].loc[1:2], "loc", table="T_dupidx"),
    _op("loc_dt", lambda t: t["L"].loc["2000-01-02":"2000-01-04"], "loc", table="T_dt"),
    # ---- duplicate index values straddling partition borders
    _op("dup_cumsum", lambda t: t["L"].cumsum(), "cumulative", table="T_dupidx"),
    _op("dup_shift", lambda t: t["L"].a.shift(1), "overlap", table="T_dupidx", window=(1, 0)),
    _op("dup_gb_sum", lambda t: t["L"].groupby("b").a.sum(), "groupby_agg", table="T_dupidx", unordered=True),
    _op("dup_value_counts_index", lambda t: t["L"].index.to_series().value_counts(), "value_counts", table="T_dupidx", unordered=True),
    _op("dup_sort", lambda t: t["L"].sort_values(["b", "a"]), "sort", table="T_dupidx"),
    _op("dup_merge_index", lambda t: _merge(t["L"][["a"]], t["R"][["b"]], left_index=True, right_index=True, how="inner"),
        "join", table="T_dupidx", binary="same", unordered=True),
    _op("head_all", lambda t: t["L"].head(4, npartitions=-1) if _dd(t["L"]) else t["L"].head(4), "head"),
    # ---- joins (independent layouts of the two inputs)
    *[_op(f"merge_{how}_on", lambda t, how=how: _merge(t["L"], t["R"], on="b", how=how), "join", binary="right",
          unordered=True, noindex=True) for how in ("inner", "left", "right", "outer", "leftsemi")],
    *[_op(f"merge_{how}_tasks", lambda t, how=how: _merge(t["L"], t["R"], on="b", how=how, shuffle_method="tasks", broadcast=False),
          "join", binary="right", unordered=True, noindex=True) for how in ("inner", "left", "right", "outer")],
    *[_op(f"merge_{how}_bcast", lambda t, how=how: _merge(t["L"], t["R"], on="b", how=how, broadcast=True, shuffle_method="tasks"),
          "join", binary="right", unordered=True, noindex=True) for how in ("inner", "left", "right")],
    # a broadcast join with an npartitions hint below the partition count of the large side (D81)
    *[_op(f"merge_{how}_bcast_np{n}", lambda t, how=how, n=n: _merge(t["L"], t["R"], on="b", how=how, broadcast=True, shuffle_method="tasks", npartitions=n),
          "join", binary="right", unordered=True, noindex=True) for how in ("inner", "left", "right") for n in (1, 2)],
    # a semi join keeps every left row at most once, whichever side is the smaller one (D87)
    _op("merge_leftsemi_bcast", lambda t: _merge(t["L"], t["R"], on="b", how="leftsemi", broadcast=True, shuffle_method="tasks"),
        "join", binary="right", unordered=True, noindex=True),
    _op("merge_leftsemi_rl_bcast", lambda t: _merge(t["R"], t["L"], on="b", how="leftsemi", broadcast=True, shuffle_method="tasks"),
        "join", binary="right", unordered=True, noindex=True),
    _op("merge_disk", lambda t: _merge(t["L"], t["R"], on="b", how="inner", shuffle_method="disk", broadcast=False), "join",
        binary="right", unordered=True, noindex=True),
    _op("merge_left_on_right_on", lambda t: _merge(t["L"], t["R"].rename(columns={"b": "B"}), left_on="b", right_on="B", how="inner"),
        "join", binary="right", unordered=True, noindex=True),
    _op("merge_two_keys", lambda t: _merge(t["L"].assign(k2=t["L"].a % 2), t["R"].assign(k2=t["R"].c % 2), on=["b", "k2"], how="left"),
        "join", binary="right", unordered=True, noindex=True),
    *[_op(f"merge_index_index_{how}", lambda t, how=how: _merge(t["L"], t["R"], left_index=True, right_index=True, how=how),
          "join", binary="right", unordered=True) for how in ("inner", "left", "outer")],
    _op("merge_left_on_right_index", lambda t: _merge(t["L"], t["R"][["d"]], left_on="b", right_index=True, how="inner"),
        "join", binary="right", unordered=True, noindex=True),
    _op("merge_left_index_right_on", lambda t: _merge(t["L"][["a"]], t["R"], left_index=True, right_on="b", how="inner"),
        "join", binary="right", unordered=True, noindex=True),
    _op("join_index", lambda t: t["L"][["a"]].join(t["R"][["d"]], how="left"), "join", binary="right", unordered=True),
    _op("merge_self_layouts", lambda t: _merge(t["L"][["a", "b"]], t["R"][["a", "c"]], on="a", how="inner"), "join",
        binary="same", unordered=True, noindex=True),
    # ---- concat
    _op("concat_rows", lambda t: _concat([t["L"], t["R"]]), "concat", binary="right"),
    # inputs whose index names / series names differ: the result carries the common name (None), in every partition
    # (D89: partitions were passed through with their own names, visible after reset_index / to_frame)
    _op("concat_rows_idxnames_reset", lambda t: _concat([t["L"].rename_axis("i"), t["R"].rename_axis("j")]).reset_index(), "concat",
        binary="right", noindex=True),
    # … also when the first input's declared index is a named RangeIndex stand-in (after set_index; D99)
    _op("concat_rows_setindex_names_reset", lambda t: _concat([t["L"].set_index("b"), t["R"].rename_axis("id")]).reset_index(), "concat",
        binary="right", noindex=True, unordered=True),
    _op("concat_series_names_to_frame", lambda t: _concat([t["L"].a, t["L"].b]).to_frame(), "concat"),
    # inputs whose known divisions TOUCH in one label held by both (seeded change C02-m4 / C06-m1: `<=` in
    # Concat._monotonic_divisions claims divisions that a later .loc trusts)
    _op("concat_touching_loc", lambda t: _concat([t["L"].loc[:6], t["L"].loc[6:]]).loc[6:7], "concat"),
    _op("concat_touching_loc_elem", lambda t: _concat([t["L"][["a"]].loc[:6], t["L"][["a"]].loc[6:]]).loc[[6]], "concat",
        refusal=("Cannot index with list against unknown division",)),
    _op("concat_rows_inner", lambda t: _concat([t["L"], t["R"]], join="inner"), "concat", binary="right"),
    _op("concat_rows_same", lambda t: _concat([t["L"], t["R"]]), "concat", binary="same"),
    _op("concat_cols_same_frame", lambda t: _concat([t["L"][["a"]], t["L"][["b"]] * 2], axis=1), "concat"),
    # the order of the outer-joined index is first-appearance per frame in pandas, per division in dask-expr: unspecified
    _op("concat_cols_layouts", lambda t: _concat([t["L"][["a"]], t["R"][["b"]]], axis=1), "concat", binary="same",
        refusal=_ALIGN_REFUSAL, unordered=True),
    _op("concat_cols_other", lambda t: _concat([t["L"][["a"]], t["R"][["d"]]], axis=1), "concat", binary="right",
        refusal=_ALIGN_REFUSAL, unordered=True),
    # ---- binary operations needing alignment
    _op("align_same_table", lambda t: t["L"].a + t["R"].b, "align", binary="same", refusal=_ALIGN_REFUSAL),
    _op("align_other_table", lambda t: t["L"].a + t["R"].c, "align", binary="right", refusal=_ALIGN_REFUSAL),
    _op("align_frame_frame", lambda t: t["L"][["a", "b"]] - t["R"][["b", "a"]], "align", binary="same", refusal=_ALIGN_REFUSAL),
    _op("align_where", lambda t: t["L"].a.where(t["R"].b > 1, 0), "align", binary="same", refusal=_ALIGN_REFUSAL),
    _op("align_assign", lambda t: t["L"].assign(z=t["R"].c), "align", binary="right", refusal=_ALIGN_REFUSAL),
    _op("align_filter_by_other", lambda t: t["L"][t["R"].b > 1], "align", binary="same", refusal=_ALIGN_REFUSAL),
]
OPS_BY_NAME = {o["name"]: o for o in OPS}
_NROWS = 6
_OVERLAP_REFUSAL = "Partition size is less than overlapping"


def _tables(op):
    L = e2e.TABLES[op["table"]]().iloc[:_NROWS]
    if op["binary"] == "right":
        R = e2e.T_right()
    elif op["binary"] == "same":
        R = L
    else:
        R = None
    return L, R


def _site(built, known):
    """Name the planner site of an alignment failure, for a decidable known-finding signature."""
    try:
        from dask_expr._expr import OpAlignPartitions

        if not known and any(isinstance(n, OpAlignPartitions) for n in built.expr.walk()):
            return "OpAlignPartitions._lower[unknown divisions]"
    except Exception:  # noqa: BLE001
        pass
    return None


def _window_guard(cuts, before, after):
    """Overlap.guardOK: every partition with a successor has >= before rows, every one with a predecessor >= after."""
    sizes = [cuts[i + 1] - cuts[i] for i in range(len(cuts) - 1)]
    n = len(sizes)
    ok_b = before == 0 or all(sizes[i] >= before for i in range(n - 1))
    ok_a = after == 0 or all(sizes[i] >= after for i in range(1, n))
    return ok_b and ok_a


def run_case(case):
    """-> None (property holds / documented refusal) | (sig, detail)"""
    import warnings

    op = OPS_BY_NAME[case["op"]]
    L, R = _tables(op)
    env_p = {"L": L, "R": R}
    try:
        want = op["fn"](env_p)
    except Exception as ex:  # noqa: BLE001
        return ({"kind": "oracle"}, f"pandas itself raised {type(ex).__name__}: {ex}")
    known = case["known"]
    env_d = {"L": e2e.frame_from_cuts(L, case["cutsL"], known)}
    if R is not None:
        env_d["R"] = e2e.frame_from_cuts(R, case["cutsR"], known)
    really_known = all(f.known_divisions for f in env_d.values())
    sig = {"family": op["family"], "op": op["name"]}
    built = None
    with warnings.catch_warnings(record=True) as wlist:
        warnings.simplefilter("always")
        try:
            built = op["fn"](env_d)
            got = built.compute() if hasattr(built, "compute") else built
        except Exception as ex:  # noqa: BLE001
            msg = str(ex)
            if isinstance(ex, NotImplementedError) and _OVERLAP_REFUSAL in msg and op["window"] is not None:
                # legitimate exactly when a neighbour partition is shorter than the window (Overlap.guardOK is false)
                if not _window_guard(case["cutsL"], *op["window"]):
                    return None
                sig["what"] = "refused-although-window-fits"
                return (sig, f"NotImplementedError({msg[:60]}…) although every neighbour partition holds the window {op['window']}")
            if isinstance(ex, (ValueError, NotImplementedError, KeyError)) and any(m in msg for m in op["refusal"]):
                return None
            if isinstance(ex, AssertionError) and op["family"] in ("align", "concat") and really_known and R is not None:
                divs = set(env_d["L"].divisions) | set(env_d["R"].divisions)
                single = env_d["L"].npartitions == 1 and env_d["R"].npartitions == 1
                if single or len(divs) == 2:  # MaybeAlignPartitions._divisions has two entries
                    # known finding D28: the aligned divisions have two entries, the repartition is skipped
                    return ({"kind": "align", "lower_skips_repartition": True, "what": "raised:AssertionError"},
                            f"{type(ex).__name__} in Blockwise._divisions (D28)")
            if isinstance(ex, IndexError) and "invalid index to scalar variable" in msg and op["name"] == "cummax_one_column":
                # known finding D49: the 1x1 carry of a one-column frame is squeezed to a scalar
                return ({"site": "TakeLast/cummax_aggregate", "case": "one-column frame"}, f"IndexError: {msg[:80]} (D49)")
            import traceback

            tb = traceback.format_exc().splitlines()
            where = next((l.strip() for l in reversed(tb) if "dask_expr/" in l), "")
            sig["what"] = "raised:" + type(ex).__name__
            site = _site(built, really_known) if built is not None else None
            if site:
                sig["site"] = site
            return (sig, f"raised {type(ex).__name__}: {msg[:200]} @ {where[-100:]}")
    if any(_ASSUMED_ALIGNED_WARNING in str(w.message) for w in wlist):
        return None  # documented warning: the caller was told that alignment is assumed
    if isinstance(want, np.ndarray):
        want = pd.Series(want)
    # operands with unknown divisions are aligned by a hash shuffle on the index: row order unspecified
    unordered = op["unordered"] or (op["family"] in ("align", "concat") and op["binary"] and not really_known)
    if not e2e.same(got, want, sort_rows=unordered, drop_index=op["noindex"]):
        sig["what"] = "differs"
        site = _site(built, really_known)
        if site is None and op["name"] == "align_assign" and hasattr(got, "__len__") and len(got) > len(want):
            site = "Assign.operation[empty left partition adopts the index of the assigned series]"
        if site:
            sig["site"] = site
        return (sig, f"got={e2e.describe(got, 8)!r:.500} want={e2e.describe(want, 8)!r:.500}")
    if op["family"] in ("sort", "set_index") and hasattr(built, "to_delayed") and getattr(built, "ndim", 0) > 0:
        # compute() merges everything into ONE partition below a sort before it runs: the partitioned plan that
        # to_delayed / map_partitions / to_parquet / head(npartitions=-1) see is a different one — compare it as well
        try:
            parts = e2e.compute_partitions(built)
        except Exception as ex:  # noqa: BLE001
            sig["what"] = "partitioned-plan-raised:" + type(ex).__name__
            return (sig, f"compute() works but the partitioned plan raised {type(ex).__name__}: {str(ex)[:200]}")
        nonempty = [x for x in parts if len(x)]
        cat = pd.concat(nonempty) if nonempty else parts[0]
        if not e2e.same(cat, want, sort_rows=unordered, drop_index=op["noindex"]):
            sig["what"] = "partitioned-plan-differs"
            return (sig, f"compute() equals pandas but the concatenated partitions do not: got={e2e.describe(cat, 8)!r:.400} want={e2e.describe(want, 8)!r:.400}")
    return None


def _layouts():
    """(cuts, may_be_known) for the first 6 rows: all 32 cuts, each cut with one empty partition inserted at
    every position; single-row and all-null partitions are among the cuts (rows 2 and 5 of T_int.c are null)."""
    cuts = e2e.all_cuts(_NROWS)
    out = [(c, True) for c in cuts]
    for c in cuts:
        for e in e2e.with_empties(c, _NROWS):
            out.append((e, False))
    return out


_RIGHT_LAYOUTS = [[0, 6], [0, 2, 6], [0, 1, 3, 6], [0, 3, 3, 6], [0, 0, 4, 6], [0, 1, 2, 3, 4, 5, 6], [0, 5, 6, 6]]


def enumerate_cases():
    """The whole vetted space in a fixed order."""
    cases = []
    lay = _layouts()
    for op in OPS:
        if op["binary"] is None:
            for cuts, may_known in lay:
                for known in ((True, False) if may_known else (False,)):
                    cases.append({"op": op["name"], "cutsL": cuts, "cutsR": None, "known": known})
        else:
            # independently chosen layouts: every layout of one side against a fixed varied set on the other
            pairs = []
            for n, (cuts, may_known) in enumerate(lay):
                pairs.append((cuts, _RIGHT_LAYOUTS[1 + n % 2]))
                pairs.append((_RIGHT_LAYOUTS[n % 3], cuts))
            for cl in _RIGHT_LAYOUTS:
                for cr in _RIGHT_LAYOUTS:
                    pairs.append((cl, cr))
            seen = set()
            for cl, cr in pairs:
                key = (tuple(cl), tuple(cr))
                if key in seen:
                    continue
                seen.add(key)
                both_plain = all(len(set(c)) == len(c) for c in (cl, cr))
                for known in ((True, False) if both_plain else (False,)):
                    cases.append({"op": op["name"], "cutsL": cl, "cutsR": cr, "known": known})
    return cases


def _run_chunk(chunk):
    out = []
    for case in chunk:
        try:
            r = run_case(case)
        except Exception as ex:  # noqa: BLE001
            r = ({"kind": "harness"}, f"harness exception {type(ex).__name__}: {ex}")
        out.append(r)
    return out


def _parallel(cases, procs=None):
    import multiprocessing as mp
    import os

    procs = procs or min(16, os.cpu_count() or 1)
    if procs <= 1 or len(cases) < 64:
        return _run_chunk(cases)
    size = max(8, len(cases) // (procs * 8))
    chunks = [cases[i : i + size] for i in range(0, len(cases), size)]
    with mp.get_context("fork").Pool(procs) as pool:
        res = pool.map(_run_chunk, chunks)
    return [r for c in res for r in c]


_STEER = {
    "TreeReduce": ("reduction", "value_counts", "groupby_agg", "nlargest", "unique", "drop_duplicates"),
    "public reductions": ("reduction", "value_counts", "groupby_agg"),
    "reduction_laws": ("reduction", "value_counts", "groupby_agg", "nlargest", "unique", "drop_duplicates"),
    "CumulativeFinalize": ("cumulative",),
    "helper_specs": ("cumulative", "overlap", "reduction"),
    "CreateOverlappingPartitions": ("overlap", "groupby_transform"),
    "Blockwise": ("elementwise", "broadcast", "filter", "align"),
    # a family that crashed is reported under its function name
    "fam_tree": ("reduction", "value_counts", "groupby_agg"),
    "fam_reduction": ("reduction", "value_counts", "groupby_agg", "nlargest", "unique", "drop_duplicates"),
    "fam_cum": ("cumulative",),
    "fam_helpers": ("cumulative", "overlap", "reduction"),
    "fam_overlap": ("overlap",),
    "fam_blockwise": ("elementwise", "broadcast", "filter", "align"),
}


def _cases(ctx, broken):
    cases = enumerate_cases()
    steered = []
    fams = set()
    for b in broken:
        tag = b.get("family") or b.get("theorem") or ""
        for key, f in _STEER.items():
            if key in tag:
                fams.update(f)
        if b.get("kind") == "proof":
            fams.update(("reduction", "cumulative", "overlap", "elementwise", "groupby_agg", "join"))
    if fams:
        steered = [c for c in cases if OPS_BY_NAME[c["op"]]["family"] in fams]
    ctx.steered_families = fams
    rng = ctx.rng
    if ctx.quick:
        # a seeded slice: every operator at least with a few layouts, then a random remainder
        by_op = {}
        for c in cases:
            by_op.setdefault(c["op"], []).append(c)
        pick = []
        for name, cs in by_op.items():
            rng.shuffle(cs)
            pick += cs[:14]
        cases = pick
        if steered:
            rng.shuffle(steered)
            steered = steered[:6000]
    return steered, cases


def support(ctx, broken):
    sup = Support()
    steered, cases = _cases(ctx, broken)
    seen = set()
    todo = []
    for c in steered + cases:
        k = repr(sorted(c.items()))
        if k not in seen:
            seen.add(k)
            todo.append(c)
    results = _parallel(todo)
    per_sig = {}
    totals = {}
    for case, r in zip(todo, results):
        sup.executed += 1
        op = OPS_BY_NAME[case["op"]]
        kind = "empty" if len(set(case["cutsL"])) < len(case["cutsL"]) else ("known" if case["known"] else "unknown")
        sup.count(f"{op['family']}/{kind}")
        if len(sup.samples) < 3:
            sup.samples.append(case)
        if r is not None:
            sig, detail = r
            key = (sig.get("op"), sig.get("what"), sig.get("kind"))
            per_sig[key] = per_sig.get(key, 0) + 1
            tk = f"{sig.get('site') or sig.get('kind') or sig.get('family')}/{sig.get('what')}"
            totals[tk] = totals.get(tk, 0) + 1
            if per_sig[key] <= 2 and len(sup.failures) < 40:
                sup.failures.append(Failure(sig=sig, case=case, detail=detail))
    # failures in the families a broken obligation points at first, then smallest layouts first
    fams = getattr(ctx, "steered_families", set())
    sup.failures.sort(key=lambda fl: (OPS_BY_NAME[fl.case["op"]]["family"] not in fams,
                                      len(fl.case["cutsL"]) + len(fl.case["cutsR"] or []), fl.case["op"]))
    if sup.failures:
        # the replay file carries the first failure only: summarise all failing signatures with it
        sup.failures[0].detail += " || all failing cases by site/what: " + ", ".join(f"{k} x{v}" for k, v in sorted(totals.items()))
    return sup


def replay(case):
    r = run_case(case)
    return Failure(sig=r[0], case=case, detail=r[1]) if r else None
