"""C13 — repartitioning preserves rows and order and honours the requested layout."""
from __future__ import annotations

import itertools

import numpy as np
import pandas as pd

from harness import e2e
from harness.core import Family, Failure, Support, drive, first_diff
from harness.render import Names, b01, rgraph, rkey

LEAN_MODULES = ["DxModel.Props.C13"]
GENERATED = []
TRUSTED = [
    "spec of dask.dataframe.methods.boundary_slice (Graph.lean boundarySliceSpec; validated by family helper_specs)",
    "dask.dataframe.core.split_evenly returns consecutive iloc slices whose cut points start at 0, end at len and are "
    "monotone (the only fact C13_more/C13_size use; the real cut points are checked by the Lean predicate boundariesOK "
    "in family helper_specs — the exact formula floor(len*i/k) of Graph.lean differs from numpy's float linspace for "
    "some (len,k), first at len=26,k=46 and len=122,k=14)",
    "methods.concat / _concat of a list of frames = row concatenation in list order (Graph.lean concatV)",
    "harness/render.py + Driver/Render.lean canonical text of graphs; plan extraction from the real dict (c13._real_plan)",
]
PARTIAL = [
    "C13_div_planner (the planner's plan passes the validator) is proven for ALL sizes only for strictly increasing old "
    "and new divisions with equal end points (C13_div_planner_partial, C13_div_strict_end_to_end); for repeated values in "
    "the new divisions, forced extension and a repeated last old division the gap is closed per input by running the "
    "proven validator on every enumerated real plan (family plan_validator) — where it finds D13",
    "float/pandas arithmetic is not modelled: int(i*ratio) boundaries, np.interp divisions, memory usages + iter_chunks, "
    "pd.date_range; their results are checked against the theorems' hypotheses (T3 families)",
    "split_evenly: Graph.lean's exact cut formula floor(len*i/k) deviates from numpy's float linspace for some (len,k); "
    "the theorems only use the cut-point predicate boundariesOK, which the real cut points are checked against",
]
EXPLANATION = (
    "Theorems: RepartitionToFewer/ToMore/Size layers return the input rows in order for all sizes given the checked "
    "hypotheses on boundaries/nsplits; a proven validator for RepartitionDivisions plans (rows, order and new divisions "
    "for every input satisfying the old divisions); rejection theorems. Tie: exact graph equality of every _layer() with "
    "the executable model (all (a,b,force) over {0..5}, length<=5 in the thorough tier), validator run on every real plan "
    "and cross-checked against a brute-force row-level oracle, T3 hypothesis checks up to 400 partitions, helper "
    "conformance. Support: real repartitions through the public API against pandas."
)

DOM = 6  # division values 0..5
MAXLEN = 5

# --------------------------------------------------------------------------- frames


def _conv(kind):
    if kind == "str":
        return lambda v: "abcdefghijklmnop"[v]
    if kind == "dt":
        return lambda v: pd.Timestamp("2000-01-01") + pd.Timedelta(days=int(v))
    return int


def _part_of(a, x):
    """The input partition that may hold index value x under divisions a (DivInv), or None."""
    n = len(a) - 1
    for i in range(n):
        if a[i] <= x < a[i + 1] or (i == n - 1 and x == a[n]):
            return i
    return None


def div_pdf(a, kind="int", dup=2):
    """Rows for a frame with divisions a: every integer in [a0, an] `dup` times, payload = row number."""
    cv = _conv(kind)
    vals = [v for v in range(a[0], a[-1] + 1) for _ in range(dup)]
    idx = [cv(v) for v in vals]
    pdf = pd.DataFrame({"pay": np.arange(len(vals), dtype="int64")}, index=pd.Index(idx))
    where = [_part_of(a, v) for v in vals]
    parts = [pdf.iloc[[p for p, w in enumerate(where) if w == i]] for i in range(len(a) - 1)]
    return pdf, parts


_FRAMES = {}


def div_frame(a, kind="int"):
    import dask_expr as dx

    key = (tuple(a), kind)
    if key not in _FRAMES:
        cv = _conv(kind)
        pdf, parts = div_pdf(a, kind)
        meta = pdf.iloc[:0]
        _FRAMES[key] = (
            dx.from_map(e2e._PartGetter(parts), list(range(len(parts))), meta=meta, divisions=tuple(cv(v) for v in a)),
            pdf,
        )
    return _FRAMES[key]


def plain_frame(nin, known=False):
    """nin partitions of two rows each (unknown divisions unless `known`)."""
    import dask_expr as dx

    key = ("plain", nin, known)
    if key not in _FRAMES:
        pdf = pd.DataFrame({"x": np.arange(nin * 2, dtype="int64")})
        parts = [pdf.iloc[2 * i : 2 * i + 2] for i in range(nin)]
        kw = {"divisions": tuple(range(0, 2 * nin, 2)) + (2 * nin - 1,)} if known else {}
        _FRAMES[key] = (dx.from_map(e2e._PartGetter(parts), list(range(nin)), meta=pdf.iloc[:0], **kw), pdf)
    return _FRAMES[key][0]


# --------------------------------------------------------------------------- rendering of the real layers


def _special():
    from dask.dataframe import methods
    from dask.dataframe.core import _concat, split_evenly

    def extra(t, n):
        return "" if len(t) == n else ",extra=" + repr(t[n:])[:40]

    def r_bs(t, names):
        return f"boundary_slice({rkey(t[1], names)},{int(t[2])},{int(t[3])},{b01(t[4])}{extra(t, 5)})"

    def r_concat(t, names):
        return f"concat([{','.join(rkey(k, names) for k in t[1])}],ii=0{extra(t, 2)})"

    def r_split(t, names):
        return f"split_evenly({rkey(t[1], names)},{int(t[2])}{extra(t, 3)})"

    return {methods.boundary_slice: r_bs, methods.concat: r_concat, _concat: r_concat, split_evenly: r_split}


def _ints(l):
    l = list(l)
    return ",".join(str(int(x)) for x in l) if l else "-"


def _real_plan(dsk, e, frame_name):
    """The emitted plan: per output the list of (input partition, lo, hi, incl) slices; keys are resolved in the dict."""
    from dask.dataframe import methods

    def slices(t):
        if isinstance(t, tuple) and t and t[0] is methods.boundary_slice:
            (nm, i), lo, hi, incl = t[1], t[2], t[3], t[4]
            if nm != frame_name:
                raise KeyError(f"slice of foreign key {t[1]!r}")
            return [(int(i), int(lo), int(hi), bool(incl))]
        if isinstance(t, tuple) and t and t[0] is methods.concat:
            return [s for k in t[1] for s in slices(dsk[k])]
        if isinstance(t, tuple) and t and isinstance(t[0], str):
            return slices(dsk[t])
        raise KeyError(f"unexpected task {t!r}")

    n = sum(1 for k in dsk if k[0] == e._name)
    return [slices(dsk[(e._name, j)]) for j in range(n)]


def _plan_text(plan):
    return ";".join("+".join(f"{i}:{lo}:{hi}:{b01(incl)}" for i, lo, hi, incl in ss) or "-" for ss in plan)


def real_div(a, b, force):
    """-> (canonical graph text | 'ERR X', plan | None)"""
    from dask_expr._repartition import RepartitionDivisions

    fr = div_frame(a)[0].expr
    try:
        e = RepartitionDivisions(fr, list(b), bool(force))
        dsk = e._layer()
    except Exception as ex:  # noqa: BLE001
        return f"ERR {type(ex).__name__}", None
    text = "G " + rgraph(dsk, Names(e._name, [fr._name]), _special())
    try:
        plan = _real_plan(dsk, e, fr._name)
    except KeyError as ex:
        plan = ("dangling", str(ex))
    return text, plan


def brute_plan_ok(a, b, plan):
    """Independent row-level oracle: run the plan on the densest data DivInv(a) allows (integers and half-integers,
    each twice) and compare with the input rows / the new divisions."""
    if isinstance(plan, tuple):
        return False
    pts = [x / 2 for x in range(2 * a[0], 2 * a[-1] + 1)]
    rows = [(x, d) for x in pts for d in (0, 1)]
    n = len(a) - 1
    parts = [[r for r in rows if _part_of(a, r[0]) == i] for i in range(n)]
    outs = []
    for ss in plan:
        o = []
        for i, lo, hi, incl in ss:
            if not 0 <= i < n:
                return False
            o += [r for r in parts[i] if lo <= r[0] and (r[0] < hi or (incl and r[0] == hi))]
        outs.append(o)
    if [r for o in outs for r in o] != rows:
        return False
    if len(outs) != len(b) - 1 or list(b) != sorted(b):
        return False
    m = len(outs)
    for j, o in enumerate(outs):
        for x, _ in o:
            if not (b[j] <= x and (x < b[j + 1] or (j == m - 1 and x == b[j + 1]))):
                return False
    return True


# --------------------------------------------------------------------------- the (a, b, force) space

# tricky inputs kept from past runs / the design phase (always run first)
CORPUS = [
    ([0, 2, 4], [0, 1, 4, 4], False),
    ([0, 2, 2, 4], [0, 1, 4, 4], False),
    ([0, 2, 2], [0, 1, 2, 2], False),
    ([0, 2, 2], [0, 2], False),
    ([0, 2], [0, 2, 2], False),
    ([0, 2], [0, 1, 2, 2], False),
    ([2, 2], [0, 2, 2], True),
    ([2, 2], [1, 2, 2], True),
    ([2, 2], [0, 1, 2, 2], True),
    ([1, 2, 2], [0, 2, 2], True),
    ([3, 3], [0, 3, 3], True),
    ([0, 0], [0, 0], False),
    ([0, 0], [0, 0, 0], False),
    ([0, 0, 0], [0, 0], False),
    ([1, 3], [0, 2, 5], True),
    ([1, 3], [0, 1, 3, 5], True),
    ([1, 3], [1, 3, 5, 5], True),
    ([1, 3, 3], [0, 3, 3, 5], True),
    ([0, 1, 2, 3, 4], [0, 4], False),
    ([0, 4], [0, 1, 2, 3, 4], False),
    ([0, 1, 1, 4], [0, 1, 4], False),
    ([0, 1, 4], [0, 1, 1, 4], False),
    ([0, 5], [0, 0, 5, 5], False),
    ([0, 3, 5], [0, 3, 3, 5], False),
    ([0, 3, 5, 5], [0, 5, 5], False),
    ([0, 3, 5, 5], [0, 4, 5], False),
    ([0, 1], [0], False),
    ([0, 1], [1, 2], True),
    ([0, 1], [0, 0], True),
]


def all_vectors():
    return [list(c) for L in range(2, MAXLEN + 1) for c in itertools.combinations_with_replacement(range(DOM), L)]


def _div_space(ctx):
    A = all_vectors()
    if not ctx.quick:
        cases = list(CORPUS)
        cases += [(a, b, f) for a in A for b in A for f in (False, True)]
        return cases
    rng = ctx.rng
    cases = list(CORPUS)
    # every vector of length 1 on the b side (the len(b) < 2 guard)
    cases += [([0, 1], [0], False), ([0, 1], [1], True)]
    for _ in range(3500):
        a = rng.choice(A)
        r = rng.random()
        if r < 0.55:  # covered without force
            cands = [b for b in A if b[0] == a[0] and b[-1] == a[-1]]
            cases.append((a, rng.choice(cands), rng.random() < 0.3))
        elif r < 0.85:  # covered only with force
            cands = [b for b in A if b[0] <= a[0] and b[-1] >= a[-1]]
            cases.append((a, rng.choice(cands), True))
        else:
            cases.append((a, rng.choice(A), rng.random() < 0.5))
    return cases


_DIV_MEMO = {}


def _div_results(ctx):
    key = (ctx.tier, ctx.seed)
    if key not in _DIV_MEMO:
        cases = _div_space(ctx)
        res = [real_div(a, b, f) for a, b, f in cases]
        _DIV_MEMO.clear()
        _DIV_MEMO[key] = (cases, res)
    return _DIV_MEMO[key]


# plans the validator rejects on the real code (handed to `support`, which executes them for real)
REJECTED_PLANS = []


def fam_graph_div(ctx):
    """T2: exact equality of RepartitionDivisions._layer() with the model planner, errors included."""
    f = Family("graph_equality[RepartitionDivisions._layer]")
    cases, res = _div_results(ctx)
    reqs = [f"layer repdiv a={_ints(a)} b={_ints(b)} force={b01(fo)}" for a, b, fo in cases]
    model = drive(reqs)
    inputs = [{"a": a, "b": b, "force": fo} for a, b, fo in cases]
    code = [r[0] for r in res]
    f.compare(inputs, code, model, [not c.startswith("ERR") for c in code])
    for d in f.disagreements:
        if d:
            d["diff"] = first_diff(d["code"], d["model"])
    f.exhaustive = not ctx.quick
    nerr = sum(1 for c in code if c.startswith("ERR"))
    f.note = (f"old/new divisions sorted (not nec. strictly) over 0..{DOM-1}, length 2..{MAXLEN}, force in {{0,1}}; "
              f"{len(cases)} cases, {nerr} rejected (ValueError) on both sides"
              + ("" if ctx.quick else "; the whole space"))
    return f


def fam_plan_validator(ctx):
    """T3: the proven validator planOK on every real emitted plan; its verdict must equal an independent brute-force
    row-level execution of the same plan (so a rejected plan is a real loss of rows, never a validator artefact)."""
    f = Family("plan_validator[planOK on real RepartitionDivisions plans]")
    cases, res = _div_results(ctx)
    reqs, inputs, code = [], [], []
    for (a, b, fo), (text, plan) in zip(cases, res):
        if plan is None:
            continue
        if isinstance(plan, tuple):
            reqs.append("check planok a=0,1 b=0,1 plan=9:0:1:1")  # dangling key: a plan the validator must reject
        else:
            reqs.append(f"check planok a={_ints(a)} b={_ints(b)} plan={_plan_text(plan)}")
        inputs.append({"a": a, "b": b, "force": fo})
        code.append("OK" if brute_plan_ok(a, b, plan) else "FAIL")
    model = drive(reqs)
    f.compare(inputs, code, model)
    del REJECTED_PLANS[:]
    seen = set()
    for inp, m, c in zip(inputs, model, code):
        if m != "OK" or c != "OK":
            k = (tuple(inp["a"]), tuple(inp["b"]), inp["force"])
            if k not in seen:
                seen.add(k)
                REJECTED_PLANS.append(inp)
    f.exhaustive = not ctx.quick
    f.note = (f"{len(reqs)} real plans validated; {len(REJECTED_PLANS)} distinct (a,b,force) rejected by the validator "
              f"(row loss confirmed by the brute-force oracle; executed for real in the support phase)")
    return f


# --------------------------------------------------------------------------- fewer / more / size / clean / lower


def _stub_frame(nin):
    return plain_frame(nin).expr


def fam_graph_fewer_more(ctx):
    """T2: RepartitionToFewer/_ToMore _layer(), _nsplits, _divisions for all (n_in, n_out) <= 12."""
    from dask_expr._repartition import RepartitionToFewer, RepartitionToMore

    f = Family("graph_equality[RepartitionToFewer/ToMore._layer,_nsplits,_divisions]")
    nmax = 12
    reqs, code, inputs = [], [], []
    sp = _special()
    for nin in range(1, nmax + 1):
        fr = _stub_frame(nin)
        frk = plain_frame(nin, known=True).expr
        for nout in range(1, nmax + 1):
            if nout < nin:
                e = RepartitionToFewer(fr, nout)
                bs = list(e._partitions_boundaries)
                code.append("G " + rgraph(e._layer(), Names(e._name, [fr._name]), sp))
                reqs.append(f"layer repfewer bs={_ints(bs)}")
                inputs.append({"kind": "fewer", "nin": nin, "nout": nout, "bs": bs})
                ek = RepartitionToFewer(frk, nout)
                code.append("L " + _ints(ek._divisions()))
                reqs.append(f"fn fewerdiv din={_ints(frk.divisions)} bs={_ints(ek._partitions_boundaries)}")
                inputs.append({"kind": "fewer_divisions", "nin": nin, "nout": nout})
            elif nout > nin:
                e = RepartitionToMore(fr, nout)
                ns = list(e._nsplits)
                code.append("L " + _ints(ns))
                reqs.append(f"fn nsplits nout={nout} nin={nin}")
                inputs.append({"kind": "nsplits", "nin": nin, "nout": nout})
                code.append("G " + rgraph(e._layer(), Names(e._name, [fr._name]), sp))
                reqs.append(f"layer repmore ns={_ints(ns)}")
                inputs.append({"kind": "more", "nin": nin, "nout": nout, "ns": ns})
                dv = e._divisions()
                code.append(f"{len(dv)} {all(x is None for x in dv)}")
                reqs.append(f"check nsplits ns={_ints(ns)} nin={nin} nout={len(dv) - 1}")
                inputs.append({"kind": "more_divisions_len", "nin": nin, "nout": nout})
    model = drive(reqs)
    model = [f"{i['nout'] + 1} True" if i["kind"] == "more_divisions_len" and m == "OK" else m for i, m in zip(inputs, model)]
    f.compare(inputs, code, model)
    for d in f.disagreements:
        if d:
            d["diff"] = first_diff(d["code"], d["model"])
    f.exhaustive = True
    f.note = f"all n_in, n_out <= {nmax}"
    return f


def fam_clean(ctx):
    """T2: _clean_new_division_boundaries."""
    from dask_expr._repartition import _clean_new_division_boundaries

    f = Family("function_equality[_clean_new_division_boundaries]")
    reqs, code, inputs = [], [], []
    for L in range(0, 5):
        for bs in itertools.product(range(5), repeat=L):
            for n in range(0, 6):
                try:
                    code.append("L " + _ints(_clean_new_division_boundaries(list(bs), n)))
                except Exception as ex:  # noqa: BLE001
                    code.append(f"ERR {type(ex).__name__}")
                reqs.append(f"fn clean bs={_ints(bs)} n={n}")
                inputs.append({"bs": list(bs), "n": n})
    f.compare(inputs, code, drive(reqs))
    f.exhaustive = True
    f.note = "all lists over 0..4 of length 0..4, n in 0..5 (unsorted lists included)"
    return f


def fam_boundaries(ctx):
    """T3: the float-computed boundaries / nsplits satisfy the hypotheses of C13_fewer / C13_more."""
    from dask_expr._repartition import RepartitionToFewer, RepartitionToMore

    f = Family("hypothesis[boundariesOK(_partitions_boundaries), nsplits>=1]")
    nmax = 400
    pairs = [(nin, nout) for nin in range(1, nmax + 1) for nout in range(1, nmax + 1) if nin != nout]
    if ctx.quick:
        small = [(i, o) for i, o in pairs if i <= 60 and o <= 60]
        rest = [p for p in pairs if not (p[0] <= 60 and p[1] <= 60)]
        pairs = small + ctx.rng.sample(rest, 4000)
    reqs, inputs = [], []
    frames = {}
    for nin, nout in pairs:
        fr = frames.get(nin)
        if fr is None:
            fr = frames[nin] = _stub_frame(nin)
        if nout < nin:
            bs = RepartitionToFewer(fr, nout)._partitions_boundaries
            # strictness is what C13_fewer_divisions needs on top of boundariesOK; len = nout + 1 is the reported count
            reqs.append(f"check strictboundaries bs={_ints(bs)} nin={nin}")
            inputs.append(("fewer", nin, nout))
            reqs.append(f"check nsplits ns={_ints([1] * nout)} nin={len(bs) - 1} nout={nout}")
            inputs.append(("fewer_count", nin, nout))
        else:
            ns = RepartitionToMore(fr, nout)._nsplits
            reqs.append(f"check nsplits ns={_ints(ns)} nin={nin} nout={nout}")
            inputs.append(("more", nin, nout))
    f.compare(inputs, ["OK"] * len(reqs), drive(reqs))
    f.exhaustive = not ctx.quick
    f.note = f"(n_in, n_out) <= {nmax}" + (" : all pairs <= 60 + 4000 sampled" if ctx.quick else " : all pairs")
    return f


def _size_cases(ctx):
    cases = []
    for L in range(1, 5):
        for us in itertools.product([1, 3, 5, 9, 12], repeat=L):
            for size in (4, 5, 10, 12, 30):
                cases.append((list(us), size))
    if ctx.quick:
        ctx.rng.shuffle(cases)
        cases = cases[:600]
    return cases


def fam_size(ctx):
    """T2 + T3: RepartitionSize._layer() with the real _nsplits/_partition_boundaries (memory usages injected)."""
    import dask_expr._repartition as R

    f = Family("graph_equality+hypothesis[RepartitionSize._layer,_partition_boundaries]")
    sp = _special()
    reqs, code, inputs = [], [], []
    orig = R._get_mem_usages
    try:
        for us, size in _size_cases(ctx):
            fr = _stub_frame(len(us))
            R._get_mem_usages = lambda frame, us=us: pd.Series(us, dtype="int64")
            e = R.RepartitionSize(fr, partition_size=size)
            for attr in ("_nsplits", "_partition_boundaries", "_size"):
                e.__dict__.pop(attr, None)
            ns = [int(x) for x in e._nsplits]
            bs = [int(x) for x in e._partition_boundaries]
            code.append("G " + rgraph(e._layer(), Names(e._name, [fr._name]), sp))
            reqs.append(f"layer repsize ns={_ints(ns)} bs={_ints(bs)} size={size}")
            inputs.append({"usages": us, "size": size, "ns": ns, "bs": bs})
            total = sum(ns) if any(k > 1 for k in ns) else len(ns)
            code.append("OK")
            reqs.append(f"check boundaries bs={_ints(bs)} nin={total}")
            inputs.append({"usages": us, "size": size, "check": "boundariesOK"})
            code.append("OK")
            reqs.append(f"check nsplits ns={_ints(ns)} nin={len(us)} nout={sum(ns)}")
            inputs.append({"usages": us, "size": size, "check": "nsplits>=1"})
            dv = list(e._divisions())
            code.append(str(len(dv)))
            reqs.append(f"check nsplits ns={_ints([1] * (len(bs) - 1))} nin={len(bs) - 1} nout={len(dv) - 1}")
            inputs.append({"usages": us, "size": size, "check": "len(_divisions)"})
    finally:
        R._get_mem_usages = orig
    model = drive(reqs)
    model = [c if (i.get("check") == "len(_divisions)" and m == "OK") else m for i, m, c in zip(inputs, model, code)]
    f.compare(inputs, code, model, [("ns" in i and any(k > 1 for k in i["ns"])) for i in inputs])
    for d in f.disagreements:
        if d:
            d["diff"] = first_diff(d["code"], d["model"])
    f.note = "memory usages over {1,3,5,9,12}^(1..4), partition_size in {4,5,10,12,30}"
    return f


def fam_lower(ctx):
    """T2: which class Repartition._lower chooses / which error it raises."""
    from dask_expr._repartition import Repartition

    f = Family("decision_equality[Repartition._lower]")
    reqs, code, inputs = [], [], []
    known3 = div_frame([0, 2, 4, 5])[0].expr  # 3 partitions, int divisions
    str3 = div_frame([0, 2, 4, 5], "str")[0].expr
    unk3 = _stub_frame(3)
    frames = {"known_int": (known3, "0,2,4,5", 1), "known_str": (str3, "0,2,4,5", 0), "unknown": (unk3, "None", 0)}
    for fname, (fr, fdivs, numeric) in frames.items():
        for np_ in (None, 1, 2, 3, 4, 7):
            for ndivs in (None, [], [0, 2, 4, 5], [0, 3, 5], [0, 5]):
                for size in (None, 100):
                    nd = ndivs
                    if nd is not None and fname == "known_str":
                        nd = ["abcdef"[v] for v in nd]
                    try:
                        low = Repartition(fr, np_, nd, False, size)._lower()
                        if low is fr:
                            c = "identity"
                        else:
                            c = type(low).__name__
                            if c == "RepartitionDivisions" and np_ is not None:
                                c += "(interpolated)"
                    except Exception as ex:  # noqa: BLE001
                        c = f"ERR {type(ex).__name__}"
                    code.append(c)
                    reqs.append(
                        f"fn lower np={'None' if np_ is None else np_} nin=3 fdivs={fdivs} numeric={numeric} "
                        f"ndivs={'None' if ndivs is None else _ints(ndivs)} size={b01(size is not None)}"
                    )
                    inputs.append({"frame": fname, "new_partitions": np_, "new_divisions": ndivs, "partition_size": size})
    f.compare(inputs, code, drive(reqs))
    f.exhaustive = True
    f.note = "3-partition frames with known int / known string / unknown divisions x new_partitions x new_divisions x size"
    return f


def fam_computed_divisions(ctx):
    """T3: divisions computed by float/pandas code (np.interp in Repartition._lower, RepartitionFreq._divisions)
    are sorted and cover the old range — the precondition (`Covered`) under which the planner does not reject."""
    import dask_expr as dx
    from dask_expr._repartition import Repartition, RepartitionDivisions, RepartitionFreq

    f = Family("hypothesis[Sorted+Covered(np.interp divisions, RepartitionFreq._divisions)]")
    reqs, inputs = [], []
    for n in (5, 7, 12, 30) if ctx.quick else (5, 6, 7, 9, 12, 17, 30, 64):
        pdf = pd.DataFrame({"x": np.arange(n)})
        for k in range(1, min(n, 7)):
            df = dx.from_pandas(pdf, npartitions=k)
            for m in range(df.npartitions + 1, (12 if ctx.quick else 20)):
                low = Repartition(df.expr, m)._lower()
                if isinstance(low, RepartitionDivisions):
                    reqs.append(f"check covered a={_ints(df.divisions)} b={_ints(low.new_divisions)} force=0")
                    inputs.append(("interp", n, k, m))
    base = pd.Timestamp("2000-01-01")
    for n in (6, 10, 31):
        pdf = pd.DataFrame({"x": np.arange(n)}, index=pd.date_range(base, periods=n, freq="12h"))
        for k in (1, 2, 3):
            df = dx.from_pandas(pdf, npartitions=k)
            for freq in ("1D", "2D", "36h", "7D", "1h" if n < 10 else "5D"):
                b = RepartitionFreq(df.expr, freq)._divisions()
                to_i = lambda t: int((pd.Timestamp(t) - base) // pd.Timedelta(minutes=1))  # noqa: E731
                reqs.append(f"check covered a={_ints(map(to_i, df.divisions))} b={_ints(map(to_i, b))} force=0")
                inputs.append(("freq", n, k, freq))
            for m in range(df.npartitions + 1, 8):
                low = Repartition(df.expr, m)._lower()
                if isinstance(low, RepartitionDivisions):
                    to_i = lambda t: int((pd.Timestamp(t) - base) // pd.Timedelta(seconds=1))  # noqa: E731
                    reqs.append(f"check covered a={_ints(map(to_i, df.divisions))} b={_ints(map(to_i, low.new_divisions))} force=0")
                    inputs.append(("interp_dt", n, k, m))
    f.compare(inputs, ["OK"] * len(reqs), drive(reqs))
    f.note = "from_pandas frames with int / datetime index; only sortedness and coverage are claimed of these divisions"
    return f


def fam_helpers(ctx):
    """T4: boundary_slice agrees with its Lean spec; split_evenly returns consecutive slices whose cut points satisfy
    the Lean predicate the theorems assume (and equal the model's floor(len*i/k) formula on the small range)."""
    from dask.dataframe import methods
    from dask.dataframe.core import split_evenly

    f = Family("helper_specs[boundary_slice, split_evenly]")
    rng = ctx.rng
    reqs, code, inputs = [], [], []
    for _ in range(400 if ctx.quick else 4000):
        n = rng.randint(0, 9)
        idx = sorted(rng.randint(0, 5) for _ in range(n))
        lo, hi = rng.randint(-1, 6), rng.randint(-1, 6)
        incl = rng.random() < 0.5
        df = pd.DataFrame({"pay": np.arange(n, dtype="int64")}, index=pd.Index(idx, dtype="int64"))
        got = methods.boundary_slice(df, lo, hi, incl)
        code.append("[" + ",".join(str(v) for v in got["pay"].tolist()) + "]")
        reqs.append(f"spec boundaryslice idx={_ints(idx)} lo={lo} hi={hi} incl={b01(incl)}")
        inputs.append(("boundary_slice", idx, lo, hi, incl))
    # split_evenly: (i) pieces are consecutive iloc slices, cut points pass the proven predicate
    grid = [(n, k) for n in range(0, 41) for k in range(1, 41)]
    grid += [(122, 14), (26, 46), (230, 14), (2, 98)]
    if not ctx.quick:
        grid += [(n, k) for n in range(41, 300, 7) for k in range(1, 130, 3)]
    for n, k in grid:
        df = pd.DataFrame({"pay": np.arange(n, dtype="int64")})
        got = split_evenly(df, k)
        cuts, pos, ok = [0], 0, sorted(got) == list(range(k))
        for i in range(k):
            piece = got[i]["pay"].tolist() if ok else []
            ok = ok and piece == list(range(pos, pos + len(piece)))
            pos += len(piece)
            cuts.append(pos)
        code.append("OK" if ok else "FAIL not consecutive slices")
        reqs.append(f"check boundaries bs={_ints(cuts)} nin={n}")
        inputs.append(("split_evenly_cuts", n, k))
        if n <= 25 and k <= 40:  # (ii) exact cut points of the model formula (numpy's float linspace deviates from
            # floor(len*i/k) first at (len=26,k=46), (122,14), and for k>=66 already at len=2)
            code.append(";".join("[" + ",".join(map(str, got[i]["pay"].tolist())) + "]" for i in range(k)))
            reqs.append(f"spec splitevenly len={n} n={k}")
            inputs.append(("split_evenly_exact", n, k))
    f.compare(inputs, code, drive(reqs))
    f.note = ("boundary_slice: random sorted int indexes with duplicates, bounds inside/outside, both right_boundary; "
              "split_evenly: the theorems rely only on the cut-point predicate, exact formula compared for len<=25")
    return f


def families(ctx):
    return [fam_graph_div, fam_plan_validator, fam_graph_fewer_more, fam_clean, fam_boundaries, fam_size, fam_lower,
            fam_computed_divisions, fam_helpers]


# --------------------------------------------------------------------------- end-to-end support / search


def _check_rows(parts, pdf, what):
    got = pd.concat(parts) if parts else pdf.iloc[:0]
    if not e2e.same(got, pdf):
        return (f"[rows] {what}: concatenated output differs from the input rows: expected {len(pdf)} rows "
                f"{pdf['pay'].tolist()[:30]}, got {len(got)} rows {got['pay'].tolist()[:30]}")
    return None


def _check_divisions(parts, divs, what):
    if any(d is None for d in divs):
        return None
    m = len(parts)
    if len(divs) != m + 1:
        return f"[count] {what}: {m} partitions computed but {len(divs)} division entries reported"
    for j, p in enumerate(parts):
        for x in p.index:
            if not (divs[j] <= x and (x < divs[j + 1] or (j == m - 1 and x == divs[j + 1]))):
                return f"[divisions] {what}: partition {j} holds index {x!r} outside [{divs[j]!r}, {divs[j+1]!r}{']' if j == m-1 else ')'}"
    return None


def _check_collection(coll, pdf, what):
    """rows, order, divisions, partition count of a computed collection"""
    r = e2e.run_or_err(lambda: e2e.compute_partitions(coll))
    if r[0] == "err":
        return ("raised", r[1], r[2])
    parts = r[1]
    msg = _check_rows(parts, pdf, what)
    if msg:
        return msg
    if len(parts) != coll.npartitions:
        return f"[count] {what}: reports npartitions={coll.npartitions} (divisions {coll.divisions!r}) but {len(parts)} partitions are computed"
    low = coll.expr.optimize()
    return _check_divisions(parts, list(low.divisions), what)


def _divisions_case(case):
    a, b, force, kind = case["a"], case["b"], case["force"], case.get("index", "int")
    cv = _conv(kind)
    df, pdf = div_frame(a, kind)
    nb = [cv(v) for v in b]
    covered = len(b) >= 2 and ((a[0] == b[0] and a[-1] == b[-1]) or (force and b[0] <= a[0] and a[-1] <= b[-1]))
    valid_b = list(b) == sorted(b) and len(set(b[:-1])) == len(b[:-1]) and len(b) >= 1
    what = f"repartition(divisions={nb!r}, force={force}) on divisions {df.divisions!r}"
    if case.get("via") == "expr":
        from dask_expr._collection import new_collection
        from dask_expr._repartition import RepartitionDivisions

        r = e2e.run_or_err(lambda: new_collection(RepartitionDivisions(df.expr, nb, force)))
    else:
        r = e2e.run_or_err(lambda: df.repartition(divisions=nb, force=force))
    res = ("raised", r[1], r[2]) if r[0] == "err" else _check_collection(r[1], pdf, what)
    if isinstance(res, tuple):
        if res[1] == "ValueError" and not (covered and valid_b):
            return None  # rejected, as required
        if res[1] == "ValueError":
            return f"[spurious-reject] {what}: a satisfiable request was rejected: {res[2]}"
        return f"[raised:{res[1]}] {what}: raised {res[1]}: {res[2]}"
    if res is None and not covered:
        return None  # e.g. identical divisions: returned unchanged
    return res


def _np_frame(case):
    import dask_expr as dx

    kind = case.get("index", "int")
    cv = _conv(kind)
    n = case["n"]
    if case["src"] == "from_pandas":
        pdf = pd.DataFrame({"pay": np.arange(n, dtype="int64")}, index=pd.Index([cv(v) for v in range(n)]))
        return dx.from_pandas(pdf, npartitions=case["k"]), pdf
    # explicit cuts; index values repeat so that values straddle partition borders
    step = case.get("dup", 2)
    pdf = pd.DataFrame({"pay": np.arange(n, dtype="int64")}, index=pd.Index([cv(i // step) for i in range(n)]))
    return e2e.frame_from_cuts(pdf, case["cuts"], known_divisions=case.get("known", True)), pdf


def _npartitions_case(case):
    df, pdf = _np_frame(case)
    m = case["m"]
    what = f"{case['src']}(n={case['n']}, {case.get('k') or case.get('cuts')}, index={case.get('index','int')}).repartition(npartitions={m})"
    r = e2e.run_or_err(lambda: df.repartition(npartitions=m))
    res = ("raised", r[1], r[2]) if r[0] == "err" else _check_collection(r[1], pdf, what)
    if isinstance(res, tuple):
        return f"[raised:{res[1]}] {what}: raised {res[1]}: {res[2]}"
    return res


def _size_case(case):
    df, pdf = _np_frame(case)
    what = f"repartition(partition_size={case['size']}) on {df.npartitions} partitions {case.get('cuts')}"
    r = e2e.run_or_err(lambda: df.repartition(partition_size=case["size"]))
    res = ("raised", r[1], r[2]) if r[0] == "err" else _check_collection(r[1], pdf, what)
    if isinstance(res, tuple):
        return f"[raised:{res[1]}] {what}: raised {res[1]}: {res[2]}"
    return res


def _freq_case(case):
    import dask_expr as dx

    n = case["n"]
    pdf = pd.DataFrame({"pay": np.arange(n, dtype="int64")},
                       index=pd.date_range("2000-01-01", periods=n, freq=case["step"]).repeat(1))
    if case.get("dup"):
        pdf = pd.DataFrame({"pay": np.arange(2 * n, dtype="int64")}, index=pdf.index.repeat(2))
    df = dx.from_pandas(pdf, npartitions=case["k"])
    what = f"repartition(freq={case['freq']!r}) on {n} x {case['step']} rows, {df.npartitions} partitions"
    r = e2e.run_or_err(lambda: df.repartition(freq=case["freq"]))
    res = ("raised", r[1], r[2]) if r[0] == "err" else _check_collection(r[1], pdf, what)
    if isinstance(res, tuple):
        return f"[raised:{res[1]}] {what}: raised {res[1]}: {res[2]}"
    return res


def _unknown_case(case):
    """divisions= on a frame with unknown divisions must raise, not return something."""
    df, pdf = _np_frame({"src": "cuts", "n": 8, "cuts": case["cuts"], "known": False, "dup": 2})
    r = e2e.run_or_err(lambda: e2e.compute_partitions(df.repartition(divisions=case["b"], force=case["force"])))
    if r[0] == "err":
        return None if r[1] == "ValueError" else f"[raised:{r[1]}] unknown divisions: raised {r[1]}: {r[2]}"
    got = pd.concat(r[1])
    return (f"[not-rejected] repartition(divisions={case['b']}) on unknown divisions did not raise and returned "
            f"{len(got)} of {len(pdf)} rows")


def _align_case(case):
    """binary operation between frames of different divisions (OpAlignPartitions -> RepartitionDivisions force=True)"""
    # unique-index series (one row per integer): pandas aligns duplicated labels as a product
    import dask_expr as dx

    def ser(a):
        vals = list(range(a[0], a[-1] + 1))
        s = pd.Series(np.arange(len(vals), dtype="int64") + 1, index=pd.Index(vals, dtype="int64"))
        parts = [s.iloc[[p for p, v in enumerate(vals) if _part_of(a, v) == i]] for i in range(len(a) - 1)]
        return dx.from_map(e2e._PartGetter(parts), list(range(len(parts))), meta=s.iloc[:0], divisions=tuple(a)), s

    x, xs = ser(case["a"])
    y, ys = ser(case["a2"])
    exp = xs + ys
    r = e2e.run_or_err(lambda: (x + y).compute())
    if r[0] == "err":
        return f"[raised:{r[1]}] align {case['a']} + {case['a2']}: raised {r[1]}: {r[2]}"
    got = r[1]
    if not e2e.same(got.sort_index(), exp.sort_index()):
        return (f"[rows] series with divisions {case['a']} + series with divisions {case['a2']}: expected "
                f"{dict(exp.dropna())}, got {dict(got.dropna())} (non-null entries)")
    return None


def _pair_case(case):
    """Two different repartitions of ONE frame evaluated in ONE graph (dask.compute(a, b), concat([a, b])): the
    intermediate keys of the two (splits, boundary slices) must not collide."""
    import dask
    import dask_expr as dx

    df, pdf = _np_frame(case)
    specs = [case["spec1"], case["spec2"]]
    what = f"two repartitions {specs} of one frame with partitions {case.get('cuts')} in one graph"
    r = e2e.run_or_err(lambda: [df.repartition(**sp) for sp in specs])
    if r[0] == "err":
        return f"[raised:{r[1]}] {what}: raised {r[1]}: {r[2]}"
    a, b = r[1]
    for order, colls in (("a,b", (a, b)), ("b,a", (b, a))):
        got = e2e.run_or_err(lambda: dask.compute(*colls))
        if got[0] == "err":
            return f"[raised:{got[1]}] {what} (compute({order})): raised {got[1]}: {got[2]}"
        for spec, g in zip(specs if order == "a,b" else specs[::-1], got[1]):
            if len(g) != len(pdf) or g["pay"].tolist() != pdf["pay"].tolist():
                return f"[rows] {what} (compute({order})): repartition({spec}) returned rows {g['pay'].tolist()} instead of {pdf['pay'].tolist()}"
    got = e2e.run_or_err(lambda: dx.concat([a, b]).compute())
    if got[0] == "err":
        return f"[raised:{got[1]}] {what} (concat): raised {got[1]}: {got[2]}"
    if got[1]["pay"].tolist() != pdf["pay"].tolist() * 2:
        return f"[rows] {what} (concat): rows {got[1]['pay'].tolist()}"
    return None


_RUNNERS = {
    "pair": _pair_case,
    "divisions": _divisions_case,
    "npartitions": _npartitions_case,
    "size": _size_case,
    "freq": _freq_case,
    "unknown": _unknown_case,
    "align": _align_case,
}


def run_case(case):
    return _RUNNERS[case["kind"]](case)


def _tag(msg):
    if msg and msg.startswith("["):
        return msg[1 : msg.index("]")]
    return "other"


def sig_of(case, msg=None):
    """Decidable signature of a failing case: the call shape plus what went wrong (rows lost / wrong partition count /
    index outside the reported divisions / exception)."""
    k = case["kind"]
    sig = {"kind": k}
    if msg is not None:
        sig["what"] = _tag(msg)
    if k == "divisions":
        a = case["a"]
        b = case["b"]
        sig.update({"dup_last": len(a) >= 2 and a[-1] == a[-2], "force": bool(case["force"]),
                    # the D13 shape: every old division equal to v, new divisions ending in [v, v] with at least two
                    # boundaries below v (needs force)
                    "old_constant": len(set(a)) == 1,
                    "new_dup_last": len(b) >= 2 and b[-1] == b[-2],
                    "new_below_old": sum(1 for x in b if x < a[0]) >= 2})
    elif k == "align":
        a, a2 = case["a"], case["a2"]
        # MaybeAlignPartitions._lower skips the repartition when the aligned divisions have two entries: all operands
        # single-partition ((min, max) is reported) or the union of the division values has two elements
        skips = (len(a) == 2 and len(a2) == 2) or len(set(a) | set(a2)) <= 2
        sig.update({"lower_skips_repartition": skips})
    elif k == "npartitions":
        sig.update({"direction": "up" if case.get("up") else "down"})
    return sig


def _realistic(a):
    """divisions a real collection can have: strictly increasing, the last value possibly repeated once"""
    body = a[:-1] if (len(a) >= 2 and a[-1] == a[-2]) else a
    return all(x < y for x, y in zip(body, body[1:]))


def _cases(ctx, broken):
    rng = ctx.rng
    quick = ctx.quick
    cases = []
    # --- divisions: realistic old divisions x API-valid new divisions over 0..4
    dom = 5
    A = [list(c) for L in range(2, 5) for c in itertools.combinations_with_replacement(range(dom), L)]
    olds = [a for a in A if _realistic(a)]
    news = [b for b in A if _realistic(b)]
    div_cases = []
    for a in olds:
        for b in news:
            for force in (False, True):
                cov = (a[0] == b[0] and a[-1] == b[-1]) or (force and b[0] <= a[0] and a[-1] <= b[-1])
                if cov or rng.random() < 0.02:
                    div_cases.append({"kind": "divisions", "a": a, "b": b, "force": force, "index": "int", "via": "api"})
    rng.shuffle(div_cases)
    n_int = 450 if quick else len(div_cases)
    picked = div_cases[:n_int]
    for kind in ("str", "dt"):
        for c in (div_cases[n_int : n_int + 60] if quick else div_cases[:: 7]):
            picked.append({**c, "index": kind})
    cases += picked
    # always: the committed corpus (expression level, so interior duplicates are reachable too)
    for a, b, f in CORPUS:
        if len(b) >= 2 and list(b) == sorted(b):
            cases.append({"kind": "divisions", "a": a, "b": b, "force": f, "index": "int", "via": "expr"})
    # --- npartitions up / down
    np_cases = []
    for n in (6, 7, 8, 12):
        for k in range(1, 7):
            for m in range(1, 10):
                for index in ("int", "str", "dt"):
                    if index != "int" and (n, k) not in ((7, 3), (8, 2), (12, 5)):
                        continue
                    np_cases.append({"kind": "npartitions", "src": "from_pandas", "n": n, "k": k, "m": m, "index": index,
                                     "up": m > k})
    for cuts in e2e.all_cuts(6, 4) + e2e.with_empties([0, 2, 6], 6) + e2e.with_empties([0, 1, 3, 6], 6):
        for m in (1, 2, 3, 5, 7):
            for known in (True, False):
                np_cases.append({"kind": "npartitions", "src": "cuts", "n": 6, "cuts": cuts, "known": known, "m": m,
                                 "dup": 2, "index": "int", "up": m > len(cuts) - 1})
    rng.shuffle(np_cases)
    cases += np_cases[: (260 if quick else len(np_cases))]
    # --- partition_size
    sz_cases = []
    for cuts in [[0, 8], [0, 4, 8], [0, 1, 8], [0, 2, 4, 6, 8], [0, 3, 3, 8], [0, 1, 2, 3, 4, 5, 6, 7, 8]]:
        for size in (40, 100, 200, 1000, "1kB"):
            for known in (True, False):
                sz_cases.append({"kind": "size", "src": "cuts", "n": 8, "cuts": cuts, "known": known, "dup": 1,
                                 "size": size})
    rng.shuffle(sz_cases)
    cases += sz_cases[: (20 if quick else len(sz_cases))]
    # --- two repartitions of one frame in one graph
    specs = [{"partition_size": 40}, {"partition_size": 100}, {"partition_size": 64}, {"npartitions": 5}, {"npartitions": 7}, {"npartitions": 3},
             {"npartitions": 1}]
    pairs = [{"kind": "pair", "src": "cuts", "n": 8, "cuts": cuts, "known": known, "dup": 1, "spec1": s1, "spec2": s2}
             for cuts in ([0, 8], [0, 4, 8], [0, 1, 8]) for known in (True, False) for s1 in specs for s2 in specs if s1 != s2]
    rng.shuffle(pairs)
    must_pairs = [c for c in pairs if c["cuts"] == [0, 4, 8] and c["known"] and {tuple(c["spec1"].items()), tuple(c["spec2"].items())} in
                  ({(("partition_size", 40),), (("partition_size", 100),)}, {(("npartitions", 5),), (("npartitions", 7),)})]
    cases += must_pairs + pairs[: (16 if quick else len(pairs))]
    # --- freq
    fq = [{"kind": "freq", "n": n, "step": step, "k": k, "freq": freq, "dup": dup}
          for n in (6, 10) for step in ("12h", "1D") for k in (1, 2, 3) for freq in ("1D", "2D", "36h", "7D")
          for dup in (False, True)]
    rng.shuffle(fq)
    cases += fq[: (24 if quick else len(fq))]
    # --- unknown divisions must be rejected
    for cuts in ([0, 8], [0, 3, 8], [0, 2, 5, 8]):
        for b in ([0, 3], [0, 2, 3], [0, 1, 2, 3, 3]):
            cases.append({"kind": "unknown", "cuts": cuts, "b": b, "force": rng.random() < 0.5})
    # --- alignment (force=True planner behind binary operators)
    al = [{"kind": "align", "a": a, "a2": a2} for a in olds for a2 in olds
          if a != a2 and len(a) <= 4 and len(a2) <= 4]
    rng.shuffle(al)
    cases += al[: (150 if quick else len(al))]
    # steer: plans the validator rejected on the real code, and disagreeing layer inputs, as real executions first
    steered = []
    for inp in REJECTED_PLANS[: (60 if quick else 400)]:
        steered.append({"kind": "divisions", "a": inp["a"], "b": inp["b"], "force": inp["force"], "index": "int", "via": "expr"})
    for bk in broken:
        inp = (bk.get("first") or {}).get("input")
        if isinstance(inp, dict) and "a" in inp and "b" in inp:
            steered.append({"kind": "divisions", "a": inp["a"], "b": inp["b"], "force": bool(inp.get("force")),
                            "index": "int", "via": "expr"})
        if isinstance(inp, dict) and "nin" in inp and "nout" in inp:
            steered.append({"kind": "npartitions", "src": "from_pandas", "n": 4 * inp["nin"], "k": inp["nin"],
                            "m": inp["nout"], "index": "int", "up": inp["nout"] > inp["nin"]})
    return steered + cases


def support(ctx, broken):
    sup = Support()
    per_sig = {}
    for case in _cases(ctx, broken):
        try:
            msg = run_case(case)
        except Exception as ex:  # noqa: BLE001
            msg = f"harness could not run the case: {type(ex).__name__}: {ex}"
        sup.executed += 1
        sup.count(case["kind"] + ("/" + case.get("index", "") if case["kind"] in ("divisions", "npartitions") else ""))
        if len(sup.samples) < 4 and case["kind"] not in [s["kind"] for s in sup.samples]:
            sup.samples.append(case)
        if msg:
            sig = sig_of(case, msg)
            k = repr(sorted(sig.items()))
            per_sig[k] = per_sig.get(k, 0) + 1
            if per_sig[k] <= 3:  # keep a few witnesses per signature, count the rest
                sup.failures.append(Failure(sig=sig, case=case, detail=msg))
    for k, n in per_sig.items():
        sup.distribution["failures " + k] = n
    return sup


def replay(case):
    msg = run_case(case)
    return Failure(sig=sig_of(case, msg), case=case, detail=msg) if msg else None
