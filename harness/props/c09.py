"""C09 — task graphs are closed, acyclic, unambiguous and free of planner objects."""
from __future__ import annotations

import re

from harness import graphs, plans, programs
from harness.core import LEAN, Failure, Family, Support, drive, known_findings
from harness.props import c09_layers, c12

LEAN_MODULES = ["DxModel.Props.C09"]
GENERATED = ["LayerClasses"]
TRUSTED = [
    "harness/graphs.py: extraction of (key, referenced keys) from real dask task tuples (dask's own key-reference convention)",
    "model assumption: global keys are (owner expression, local key) — established for modelled layers by the exact graph-equality ties (owner tag @self) and for all layers of the vetted plans by the per-layer overlap check",
    "harness/extractors_layers.py: the class -> model map MODELS (a class mapped to the wrong model is caught only as far as the tie family named in the map exercises that class; every class of MUST_FLAT / MUST_GATHER / the own-_task list must have an instance or the family is broken)",
    "harness/props/c09_layers.py: canonical text of real flat layers (key arguments found by walking task tuples/lists/dicts in order); recorder around _filtered_task",
    "dask legacy helpers whose RESULTS are inputs of the models: _get_partitions (loc), check_meta (concat pass-through), pair_partitions (merge_asof), tree_width / tree_groups (create_merge_tree), iter_chunks / memory usage (RepartitionSize), the float boundary and fusion-step arithmetic",
    "lean/Driver/LayerOK.lean: rendering of the closed-form scan keys (level e, block k) of MergeAsofIndexed back to (pos, d, phase) = ((k+1)*2^e - 1, 2^e, phase)",
    "ties of the generators modelled for other properties are run by those properties' checks (c02 tree/cumulative/overlap/blockwise, c10 BroadcastJoin, c13 repartition, c17 FromGraph/_DelayedExpr); C09 re-runs c12's shuffle family and checks the hypotheses its own theorems add",
]
# the classes that build graph structure themselves and have no Lean model — the SAME list as `knownUnmodelled`
# in lean/DxModel/Props/C09.lean and as the uncovered classes of the live table (family `unmodelled_lists`)
UNMODELLED = {
    "HashJoinP2P": "needs `distributed` (not installed here): _layer cannot be called; never reached by any program that runs in this environment",
    "P2PShuffle": "needs `distributed` (not installed here)",
}
PARTIAL = [
    "classes with a hand-written layer and NO Lean model (= knownUnmodelled of Props/C09.lean): "
    + "; ".join(f"{k} — {v}" for k, v in UNMODELLED.items()),
    "C09_layer_broadcastjoin is proven for the unfiltered expression; with a `_partitions` selection the layer numbers its outputs by ORIGINAL partition number (C09_layer_broadcastjoin_filtered_counterexample; open finding D66b = the C09 face of D66)",
    "CreateOverlappingPartitions: integer windows are modelled; timedelta windows (_tail_timedelta/_head_timedelta branches) only through the proven checker on real graphs (programs rolling_timedelta, shift_timedelta)",
    "ResolveOverlappingDivisions: keys and references are modelled, the nesting of drop_overlap/get_overlap inside one task is not",
    "MergeAsofIndexed: the keys (name, pos, d, phase) of prefix/suffix_reduction are modelled in closed form (level, block); that the loops produce exactly these keys is established by exact graph equality for the partition counts run (quick: up to 5 right partitions, thorough: up to 17), not by a proof about the while-loops",
    "Fused: the outer task is covered here (Blockwise shape); the sub-graph inside the task is C14_task (with its open finding D60)",
    "FromGraph / _DelayedExpr are well formed RELATIVE to the imported graph (closed, acyclic, containing the requested keys; no task reading the Delayed's own key): foreign graphs are only checked, not modelled",
    "the `listing = domain` half of exact graph equality (Listed) is proven for the flat and gather models and TreeReduce (C02_tree_dict); for the other models the driver renders a listed key without task as !undefined, which the exact ties would show, but a task defined outside the listing would go unnoticed",
    "inputs of the models (each checked against the theorem's hypothesis on real values, T3): concat pass-through flags, _get_partitions results, pair_partitions result, fusion step, tree_width/tree_groups, repartition boundaries / nsplits, TaskShuffle stage arithmetic",
    "open finding D104: x.persist() + x (fuse=False) defines the keys of x twice (literal and task, equal values) — by design of persist",
]
EXPLANATION = (
    "Theorems: a plan of LayerOK layers merges into a closed, ranked graph defining every output key (any plan size); "
    "C09_plan_of_models instantiates that for plans of layer MODELS; LayerWF (closed relative to the dependencies' "
    "partition counts, ranked, exactly the output keys (name,i), no foreign key) for every modelled generator and all "
    "parameters; soundness of the order checker; the coverage table (GENERATED from the live classes on every run) is "
    "decided by the kernel: every class that overrides _layer/_task/_filtered_task/_blockwise_arg/_broadcast_dep/"
    "dependencies/_fusion_buckets is covered by a theorem, abstract, or in knownUnmodelled, and its source hash is the "
    "committed one. Ties: exact graph equality of the flat/gather generators and of the shuffle layers with the real "
    "_layer(); reference sets of every Blockwise-derived _task; hypotheses of the repartition theorems on real parameters; "
    "the proven checker accepts the real __dask_graph__() of every vetted program and of the C09 extra programs (which "
    "reach every layer class that can run here) at every optimizer stage (closure, acyclicity, unique keys), plus "
    "object-graph walk for embedded Expr/collection objects, pickling under dask-expr-no-serialize, and per-layer key "
    "overlap comparison."
)


def _known_unmodelled_lean():
    src = (LEAN / "DxModel" / "Props" / "C09.lean").read_text()
    m = re.search(r"def knownUnmodelled : List String :=\s*\[(.*?)\]", src, flags=re.S)
    return re.findall(r'"(\w+)"', m.group(1)) if m else []


# --------------------------------------------------------------------------- one plan


def _fingerprint(x, depth=0):
    """A description of a task that distinguishes literal arguments (rtask renders every array as `?ndarray`)."""
    import hashlib

    import numpy as np
    import pandas as pd

    if depth > 8:
        return "…"
    if isinstance(x, (tuple, list)):
        return ("(" if isinstance(x, tuple) else "[") + ",".join(_fingerprint(y, depth + 1) for y in x) + ")"
    if isinstance(x, dict):
        return "{" + ",".join(f"{k!r}:{_fingerprint(v, depth + 1)}" for k, v in sorted(x.items(), key=lambda kv: repr(kv[0]))) + "}"
    if isinstance(x, np.ndarray):
        return "nd:" + hashlib.md5(np.ascontiguousarray(x).tobytes() + str(x.dtype).encode()).hexdigest()[:8]
    if isinstance(x, (pd.DataFrame, pd.Series, pd.Index)):
        return f"pd:{type(x).__name__}:{x.shape}"
    if x is None or isinstance(x, (bool, int, float, str, slice, np.integer, np.floating)):
        return repr(x)
    if callable(x):
        return "fn:" + (getattr(x, "__qualname__", None) or getattr(x, "__name__", None) or type(x).__name__)
    return "?" + type(x).__name__


def _layer_overlaps(expr):
    """Different expressions contributing different tasks under one key."""
    from harness.render import Names, rtask

    seen = {}
    bad = []
    stack, names_seen = [expr], set()
    while stack:
        e = stack.pop()
        if e._name in names_seen:
            continue
        names_seen.add(e._name)
        stack.extend(e.dependencies())
        for k, v in e._layer().items():
            desc = rtask(v, Names("", [])) + "#" + _fingerprint(v)
            if k in seen and seen[k][1] != desc:
                bad.append(f"key {k!r} defined by {seen[k][0]} and {type(e).__name__} with different tasks")
            seen.setdefault(k, (type(e).__name__, desc))
    return bad


def _foreign_key_defs(expr):
    """A layer defining a key `(name of one of its dependencies, i)` (keys unique to the owner)."""
    bad = []
    for e in expr.walk():
        deps = {d._name for d in e.dependencies() if isinstance(d._name, str)} - {e._name}
        if not deps or type(e).__name__ in ("FromGraph", "_DelayedExpr"):
            continue
        for k in e._layer():
            if isinstance(k, tuple) and k and k[0] in deps:
                bad.append(f"{type(e).__name__} defines the key {k!r} of its dependency")
                break
    return bad


def check_plan(expr):
    """All C09 obligations on one lowered plan; -> (problems, checker request line)."""
    try:
        g = dict(expr.__dask_graph__())
    except Exception as ex:  # noqa: BLE001
        return [f"graph cannot be materialised: {type(ex).__name__}: {str(ex)[:120]}"], "check order g=0:0"
    outs = graphs.flat_keys(expr.__dask_keys__())
    problems, req, _ = graphs.model_check_graph(g, outs)
    if len(outs) != expr.npartitions:
        problems.append(f"{len(outs)} output keys for npartitions={expr.npartitions}")
    emb = graphs.contains_planner_object(g)
    if emb:
        problems.append("planner object in graph: " + emb)
    pk = graphs.picklable_without_expr(g)
    if pk and "no-serialize" in pk.lower():
        problems.append("graph pickles an expression: " + pk)
    problems += _layer_overlaps(expr)[:2]
    problems += _foreign_key_defs(expr)[:2]
    return problems, req


MUST = (
    "shift1/diff1/self_add", "two_shifts", "two_diffs_frame", "nested_fused", "nested_fused3", "upper_first_shared_stage",
    "upper_first_shared_stage_rep", "stage_first_shared_stage", "nested_fused_deps", "nested_fused_deps3", "two_reparts_up",
    "two_reparts_mixed", "two_reparts_size", "shuffle_b/tail2/id", "shuffle_b/tail2/count", "cumsum/id", "merge_inner", "concat",
    "shift1/self_add", "head3/id", "repart5/shuffle_b/id", "shuffle_b_disk/id", "diff1/shift1/id")


def _plan_cases(ctx, broken):
    progs = programs.valid_programs(2, "any")
    n = 60 if ctx.quick else 1500
    sel = plans.seeded_slice(ctx, progs, n)
    # always include the shapes known to be delicate
    must = [p for p in progs if p.name in MUST]
    return must + sel


_CHECKED = {}  # (kind, program name, layout, tier) -> [(stage, problems, request, class names)]


def _checked(kind, name, layout, build, stages=None):
    key = (kind, name, layout, tuple(stages) if stages else None)
    if key in _CHECKED:
        return _CHECKED[key]
    res = []
    sts = []
    try:
        q = build()
        expr = q.expr if hasattr(q, "expr") else None
    except Exception:  # noqa: BLE001  (scalars have no graph)
        expr = None
    if expr is not None:
        try:
            sts = plans.stage_exprs(expr, stages or plans.STAGES)
        except Exception:  # noqa: BLE001  (optimizer failures belong to C01): keep the stages that can be built
            for st in ["unoptimized"] + list(stages or plans.STAGES):
                try:
                    sts += [x for x in plans.stage_exprs(expr, [] if st == "unoptimized" else [st]) if x[0] == st]
                except Exception:  # noqa: BLE001
                    pass
    for st, e in sts:
        problems, req = check_plan(e)
        res.append((st, problems, req, sorted({type(n).__name__ for n in e.walk()}), e))
    _CHECKED[key] = res
    return res


def _vetted_runs(ctx, broken, layouts):
    for p in _plan_cases(ctx, broken):
        for layout in layouts:
            for rec in _checked("vetted", p.name, layout, lambda p=p, layout=layout: plans.build(p, layout)):
                yield ("vetted", p.name, layout) + rec


def _extra_runs(ctx):
    for name, thunk in c09_layers.extra_programs().items():
        for rec in _checked("extra", name, 0, thunk):
            yield ("extra", name, 0) + rec


def fam_real_graphs(ctx):
    """T3: the Lean-proven checker accepts the real graph of every vetted plan and every extra program at every stage."""
    f = Family("proven_checker_on_real_graphs[Expr.__dask_graph__]")
    reqs, inputs = [], []
    classes = {}
    runs = list(_vetted_runs(ctx, [], [0, 3] if ctx.quick else [0, 1, 3])) + list(_extra_runs(ctx))
    for kind, name, layout, st, problems, req, cls, _e in runs:
        reqs.append(req)
        inputs.append({"program": name, "space": kind, "layout": layout, "stage": st, "problems": problems})
        for c in cls:
            classes[c] = classes.get(c, 0) + 1
    model = drive(reqs)
    code = ["OK" if not i["problems"] else "PROBLEMS " + "; ".join(i["problems"]) for i in inputs]
    f.compare([{k: v for k, v in i.items() if k != "problems"} for i in inputs], code, model)
    from harness import extractors_layers as el

    table = [r["name"] for r in el.layer_rows() if not r["abstract"]]
    hit = {c: classes.get(c, 0) for c in table}
    never = sorted(c for c, n in hit.items() if n == 0 and c not in ("Expr", "_expr.Expr", "PartitionsFiltered", "LocBase", "Blockwise"))
    f.note = (f"{len(runs)} real graphs; graphs containing each UNMODELLED class: "
              + ", ".join(f"{c}={hit.get(c, 0)}" for c in UNMODELLED)
              + "; table classes in no checked graph: " + (",".join(never) or "none"))
    return f


def fam_blockwise(ctx):
    extra = [(f"{name}@{st}", e) for _k, name, _l, st, _p, _r, _c, e in list(_vetted_runs(ctx, [], [0])) if st in ("unoptimized", "fused")]
    return c09_layers.fam_blockwise_shape(ctx, extra)


def fam_table_lists(ctx):
    """the committed `knownUnmodelled` of Props/C09.lean, PARTIAL of this module and the live table agree"""
    from harness import extractors_layers as el

    f = Family("unmodelled_lists[knownUnmodelled (Lean) = UNMODELLED (harness) = uncovered classes of the live table]")
    live = sorted(r["name"] for r in el.layer_rows() if not r["covered"])
    f.compare([{"list": "Lean knownUnmodelled"}, {"list": "harness UNMODELLED"}],
              [sorted(_known_unmodelled_lean()), sorted(UNMODELLED)], [live, live])
    f.exhaustive = True
    return f


def families(ctx):
    return [c12.fam_graphs, fam_real_graphs, c09_layers.fam_flat, c09_layers.fam_gather, fam_blockwise,
            c09_layers.fam_repartition_hyps, c09_layers.fam_sources, fam_table_lists]


# --------------------------------------------------------------------------- support / failing-input search


def _suspect_classes(broken):
    """Class names a broken obligation points at: the class of a disagreeing family input, the classes whose source
    hash differs from the committed one, the classes of the live table that no theorem covers."""
    from harness import extractors_layers as el

    out = []
    for b in broken:
        if b.get("kind") == "correspondence":
            inp = (b.get("first") or {}).get("input")
            if isinstance(inp, dict) and inp.get("class"):
                out.append(str(inp["class"]).split("@")[0])
            if "Shuffle" in b.get("family", ""):
                out += ["TaskShuffle", "SimpleShuffle", "DiskShuffle"]
        elif b.get("kind") == "proof":
            rows = el.layer_rows()
            committed = el.committed_hashes()
            if b.get("theorem") == "C09_layer_sources_unchanged":
                out += [r["name"] for r in rows if r["covered"] and committed.get(r["name"]) != r["hash"]]
            if b.get("theorem") in ("C09_layer_classes_covered", "C09_layer_known_unmodelled_exact"):
                known = set(_known_unmodelled_lean())
                out += [r["name"] for r in rows if not r["covered"] and r["name"] not in known]
    # subclasses inherit the changed method
    seen = []
    for c in out:
        if c not in seen:
            seen.append(c)
    return seen


def _uses(cls_names, suspects):
    if not suspects:
        return False
    from harness.extractors import live_expr_classes

    byname = {c.__qualname__: c for c in live_expr_classes()}
    sus = [byname[s] for s in suspects if s in byname]
    for n in cls_names:
        c = byname.get(n)
        if n in suspects or (c is not None and any(issubclass(c, s) for s in sus)):
            return True
    return False


CROSS_LISTED = {  # open findings recorded under another property whose failing cases also violate C09
    "D66": ("C11", {"mechanism": "broadcast-join"}),
}


def _cross_listed(failure):
    for fid, (pid, _sig) in CROSS_LISTED.items():
        if failure.sig.get("cross") == fid and any(f["id"] == fid and f.get("status") == "open" for f in known_findings(pid)):
            return fid
    return None


def _bjoin_filtered_witness():
    """D66 as a C09 violation: a BroadcastJoin under a partition selection does not define the keys it is asked for"""
    import dask_expr as dx

    big = dx.from_pandas(c09_layers._pdf(12), npartitions=3, sort=False)
    small = dx.from_pandas(c09_layers._pdf(4)[["b", "a"]].rename(columns={"a": "ra"}), npartitions=2, sort=False)
    q = big.merge(small, on="b", broadcast=True, shuffle_method="tasks").partitions[[2]]
    e = q.optimize(fuse=False).expr
    if not any(type(n).__name__ == "BroadcastJoin" for n in e.walk()):
        return None
    problems, _ = check_plan(e)
    return problems


def _persist_overlap_witness():
    """`x = df + 1; p = x.persist(); p + x` (fuse=False): the FromGraph layer of `p` holds the computed partitions under
    the ORIGINAL keys `(x._name, i)`, the layer of `x` defines the same keys as tasks — one key, two different tasks
    (equal values: dask keeps the names of persisted keys on purpose; which one `toolz.merge` keeps only decides
    whether the partition is recomputed)."""
    import dask_expr as dx

    df = dx.from_pandas(c09_layers._pdf(12), npartitions=3, sort=False)
    x = df + 1
    q = x.persist() + x
    e = q.optimize(fuse=False).expr
    problems, _ = check_plan(e)
    return [p for p in problems if "different tasks" in p]


CANDIDATES = {  # observations on the unchanged tree that are reported, not counted, until they are triaged into known_findings.json
    "persist-key-overlap": {"kind": "layer-overlap", "what": "persisted key redefined by its original expression"},
}


def _triaged(sig):
    """has the candidate been recorded (any status) under C09 with this `what`?"""
    return any(f.get("signature", {}).get("what") == sig["what"] for f in known_findings("C09"))


def support(ctx, broken):
    """Failing-input search = the same structural obligations, reported per concrete program; steered towards the
    programs whose plans contain a class a broken obligation points at."""
    sup = Support()
    suspects = _suspect_classes(broken)
    runs = list(_extra_runs(ctx)) + list(_vetted_runs(ctx, broken, (0, 3)))
    if suspects:
        # widen: scan more of the vetted space for plans that contain a suspect class
        progs = programs.valid_programs(2, "any")
        extra = plans.seeded_slice(ctx, progs, 150 if ctx.quick else 2500)
        found = 0
        for p in extra:
            recs = _checked("vetted", p.name, 0, lambda p=p: plans.build(p, 0), ["fused"])
            if any(_uses(r[3], suspects) for r in recs):
                found += 1
                runs = [("vetted", p.name, 0) + r for r in recs] + runs
            if found >= (25 if ctx.quick else 400):
                break
        runs.sort(key=lambda r: 0 if _uses(r[6], suspects) else 1)
        sup.count("steered:" + ",".join(suspects)[:80])
    for kind, name, layout, st, problems, _req, cls, _e in runs:
        sup.executed += 1
        sup.count(st)
        if problems:
            sup.failures.append(Failure(sig={"kind": "graph", "program": name, "stage": st},
                                        case={"space": kind, "program": name, "layout": layout, "stage": st},
                                        detail="; ".join(problems)))
        if len(sup.failures) >= 5:
            break
    # D66 (BroadcastJoin under a partition selection) is a C09 violation as well: open finding D66b
    try:
        pr = _bjoin_filtered_witness()
    except Exception as ex:  # noqa: BLE001
        pr = [f"witness raised {type(ex).__name__}"]
    sup.executed += 1
    if pr:
        sup.failures.append(Failure(sig={"kind": "layer-contract", "class": "BroadcastJoin", "what": "output keys numbered by original partition under a _partitions selection"},
                                    case={"space": "witness", "program": "bjoin_filtered"}, detail="; ".join(pr)))
    # a persisted collection combined with the expression it materialised: open finding D104
    try:
        pr = _persist_overlap_witness()
    except Exception as ex:  # noqa: BLE001
        pr = []
        sup.count(f"persist-witness-raised:{type(ex).__name__}")
    sup.executed += 1
    if pr:
        sup.failures.append(Failure(sig=dict(CANDIDATES["persist-key-overlap"]), case={"space": "witness", "program": "persist_overlap"}, detail="; ".join(pr)))
    sup.samples = [{"program": r[1], "space": r[0]} for r in runs[:3]]
    return sup


def replay(case):
    if case.get("space") == "witness":
        pr = _persist_overlap_witness() if case.get("program") == "persist_overlap" else _bjoin_filtered_witness()
        return Failure(sig={}, case=case, detail="; ".join(pr)) if pr else None
    if case.get("space") == "extra":
        q = c09_layers.extra_programs()[case["program"]]()
    else:
        progs = {p.name: p for p in programs.valid_programs(2, "any")}
        q = plans.build(progs[case["program"]], case.get("layout", 0))
    for st, e in plans.stage_exprs(q.expr):
        if st == case["stage"]:
            problems, _ = check_plan(e)
            if problems:
                return Failure(sig={}, case=case, detail="; ".join(problems))
    return None
