"""C09 — task graphs are closed, acyclic, unambiguous and free of planner objects."""
from __future__ import annotations

from harness import graphs, plans, programs
from harness.core import Failure, Family, Support, drive
from harness.props import c12

LEAN_MODULES = ["DxModel.Props.C09"]
GENERATED = []
TRUSTED = [
    "harness/graphs.py: extraction of (key, referenced keys) from real dask task tuples (dask's own key-reference convention)",
    "model assumption: global keys are (owner expression, local key) — established for modelled layers by the exact graph-equality ties (owner tag @self) and for all layers of the vetted plans by the per-layer overlap check",
]
PARTIAL = [
    "LayerOK is proven for the shuffle layers here (C09_layer_*) and for the generators of C02/C13/C14 in their own files; layers of merge_asof, quantiles, _indexing are only covered by the proven checker run on real graphs (T3)",
]
EXPLANATION = (
    "Theorems: a plan of LayerOK layers merges into a closed, ranked graph defining every output key (any plan size); "
    "soundness of the order checker. Tie: exact graph equality of the modelled _layer() generators; the proven checker "
    "accepts the real __dask_graph__() of every vetted program at every optimizer stage (closure, acyclicity, unique keys), "
    "plus object-graph walk for embedded Expr/collection objects, pickling under dask-expr-no-serialize, and per-layer key "
    "overlap comparison."
)


def _layer_overlaps(expr):
    """Different expressions contributing different tasks under one key."""
    from harness.render import Names, rtask

    seen = {}
    bad = []
    stack, names_seen = [expr], set()
    while stack:
        e = stack.pop()
        if e._name in names_seen:
            continue
        names_seen.add(e._name)
        stack.extend(e.dependencies())
        for k, v in e._layer().items():
            desc = rtask(v, Names("", []))
            if k in seen and seen[k][1] != desc:
                bad.append(f"key {k!r} defined by {seen[k][0]} and {type(e).__name__} with different tasks")
            seen.setdefault(k, (type(e).__name__, desc))
    return bad


def check_plan(expr):
    """All C09 obligations on one lowered plan; -> (problems, checker request line)."""
    try:
        g = dict(expr.__dask_graph__())
    except Exception as ex:  # noqa: BLE001
        return [f"graph cannot be materialised: {type(ex).__name__}: {str(ex)[:120]}"], "check order g=0:0"
    outs = graphs.flat_keys(expr.__dask_keys__())
    problems, req, _ = graphs.model_check_graph(g, outs)
    if len(outs) != expr.npartitions:
        problems.append(f"{len(outs)} output keys for npartitions={expr.npartitions}")
    emb = graphs.contains_planner_object(g)
    if emb:
        problems.append("planner object in graph: " + emb)
    pk = graphs.picklable_without_expr(g)
    if pk and "no-serialize" in pk.lower():
        problems.append("graph pickles an expression: " + pk)
    problems += _layer_overlaps(expr)[:2]
    return problems, req


def _plan_cases(ctx, broken):
    progs = programs.valid_programs(2, "any")
    n = 60 if ctx.quick else 1500
    sel = plans.seeded_slice(ctx, progs, n)
    # always include the shapes known to be delicate
    must = [p for p in progs if p.name in (
        "shift1/diff1/self_add", "two_shifts", "two_diffs_frame", "nested_fused", "nested_fused3", "upper_first_shared_stage", "upper_first_shared_stage_rep", "stage_first_shared_stage", "nested_fused_deps", "nested_fused_deps3", "two_reparts_up", "two_reparts_mixed", "two_reparts_size", "shuffle_b/tail2/id", "shuffle_b/tail2/count", "cumsum/id", "merge_inner", "concat", "shift1/self_add",
        "head3/id", "repart5/shuffle_b/id", "shuffle_b_disk/id", "diff1/shift1/id")]
    return must + sel


def fam_real_graphs(ctx):
    """T3: the Lean-proven checker accepts the real graph of every vetted plan at every stage."""
    f = Family("proven_checker_on_real_graphs[Expr.__dask_graph__]")
    reqs, inputs = [], []
    for p in _plan_cases(ctx, []):
        for layout in ([0, 3] if ctx.quick else [0, 1, 3]):
            try:
                q = plans.build(p, layout)
            except Exception:  # noqa: BLE001
                continue
            if not hasattr(q, "expr"):
                continue
            try:
                stages = plans.stage_exprs(q.expr)
            except Exception:  # noqa: BLE001
                continue  # optimizer failures belong to C01
            for st, e in stages:
                problems, req = check_plan(e)
                reqs.append(req)
                inputs.append({"program": p.name, "layout": layout, "stage": st, "problems": problems})
    model = drive(reqs)
    code = ["OK" if not i["problems"] else "PROBLEMS " + "; ".join(i["problems"]) for i in inputs]
    f.compare([{k: v for k, v in i.items() if k != "problems"} for i in inputs], code, model)
    return f


def families(ctx):
    return [c12.fam_graphs, fam_real_graphs]


def support(ctx, broken):
    """Failing-input search = the same structural obligations, reported per concrete program."""
    sup = Support()
    for p in _plan_cases(ctx, broken):
      for layout in (0, 3):
        try:
            q = plans.build(p, layout)
            if not hasattr(q, "expr"):
                continue
            stages = plans.stage_exprs(q.expr)
        except Exception:  # noqa: BLE001
            continue
        for st, e in stages:
            sup.executed += 1
            sup.count(st)
            problems, _ = check_plan(e)
            if problems:
                sup.failures.append(Failure(sig={"kind": "graph", "program": p.name, "stage": st},
                                            case={"program": p.name, "layout": layout, "stage": st},
                                            detail="; ".join(problems)))
        if len(sup.failures) >= 5:
            break
    sup.samples = [{"program": p.name} for p in _plan_cases(ctx, broken)[:3]]
    return sup


def replay(case):
    progs = {p.name: p for p in programs.valid_programs(2, "any")}
    q = plans.build(progs[case["program"]], case.get("layout", 0))
    for st, e in plans.stage_exprs(q.expr):
        if st == case["stage"]:
            problems, _ = check_plan(e)
            if problems:
                return Failure(sig={}, case=case, detail="; ".join(problems))
    return None
