"""C03 — a filter keeps exactly the rows that satisfy the user's predicate."""
from __future__ import annotations

import itertools
import os
import tempfile

import numpy as np
import pandas as pd

from harness import e2e
from harness.core import Family, Failure, Support, drive, known_findings

LEAN_MODULES = ["DxModel.Props.C03"]
GENERATED = ["FilterFlags"]
TRUSTED = [
    "abstraction of a real predicate Expr to the model's tree: classes And/Or/Invert are the connectives, every other "
    "expression is an atom identified by its _name (harness/props/c03.py: to_sexpr)",
    "abstraction of a Merge + Filter parent to (how, PredCols, suffix collisions) uses the real "
    "is_filter_pushdown_available / Merge._predicate_columns; the two collision formulas are re-stated in the harness",
    "pyarrow's filter evaluation is Kleene logic with null => row dropped (validated by family pyarrow_kleene)",
    "hand-assigned semantic category per flagged class (harness/extractors.py FILTER_CATEGORIES), validated by family "
    "category_conformance on small frames with nulls",
    "pandas itself (oracle of the end-to-end search)",
]
PARTIAL = [
    "predicate substitution (p[op f := f]) is not modelled structurally: the crossing theorems take the substituted "
    "predicate as predIn with the agreement hypothesis (or, for casts, the unsubstituted predicate: C03_cross_rowlocal_cast); "
    "whether the real rule substitutes completely and only under a sound guard is checked by family category_conformance "
    "(the real rule is applied and both plans executed) and by the support search",
    "AsType._is_value_preserving (np.can_cast 'safe') is not modelled: the guard is exercised by category_conformance on a "
    "dtype grid; numpy calls int64->float64 safe although it is not injective above 2**53",
    "_check_dependents_are_predicates (graph walk) is not modelled: its result is an input of the model, "
    "the end-to-end search covers shared consumers",
    "deeper occurrences of the filter inside other operands of its parent are replaced by the real substitute in the "
    "harness (the model is the operand-level view of parent.substitute)",
    "(true,true) both-sides push on a key column is proven for inner/left/leftsemi only (the code never does it for right/outer)",
    "D26 (open): Filter->Index rule + DiskShuffle's build-dependent row order; outside the model (row order inside a "
    "shuffled partition is unspecified), found by the repeated corpus case only",
]
EXPLANATION = (
    "Theorems over unbounded predicate trees and all valuations: OR-factoring preserves truth; and-split / squash; "
    "crossing by operator category (laws as hypotheses) tied to the live _filter_passthrough table by a decided table "
    "obligation; DNF normalize/combine/extract keep meaning (2-valued and Kleene-kept readings); reader = pandas on "
    "null-compatible atoms; join-side legality for exactly the join kinds of the table, with converse counterexamples. "
    "Tie: real rewrite_filters/_get_predicate_components/_convert_mapping/_DNF.*/Merge._filter_passthrough_available/"
    "_simplify_up called in-process on real Expr predicates vs the compiled model; category conformance by running the "
    "real rule. Support: real df[pred] queries above every operator kind, joins, shared consumers and arrow parquet "
    "readers on data with nulls vs pandas."
)
RULE = ("predicate trees enumerated exhaustively up to a node bound, then seeded random; non-trivial = the rewrite "
        "changed the tree / filters were extracted / the merge rule fired")


# =========================================================================== predicate trees (pure python)
# tree := ("a", i) | ("and", l, r) | ("or", l, r) | ("not", x)


def trees_of_size(n, natoms, memo):
    key = (n, natoms)
    if key in memo:
        return memo[key]
    if n == 1:
        out = [("a", i) for i in range(natoms)]
    else:
        out = [("not", t) for t in trees_of_size(n - 1, natoms, memo)]
        for i in range(1, n - 1):
            j = n - 1 - i
            if j < 1:
                continue
            for l in trees_of_size(i, natoms, memo):
                for r in trees_of_size(j, natoms, memo):
                    out.append(("and", l, r))
                    out.append(("or", l, r))
    memo[key] = out
    return out


def random_tree(rng, size, natoms, p_not=0.15):
    if size <= 1:
        return ("a", rng.randrange(natoms))
    if size == 2 or rng.random() < p_not:
        return ("not", random_tree(rng, size - 1, natoms, p_not))
    i = rng.randint(1, size - 2)
    op = "or" if rng.random() < 0.5 else "and"
    return (op, random_tree(rng, i, natoms, p_not), random_tree(rng, size - 1 - i, natoms, p_not))


def tree_size(t):
    return 1 if t[0] == "a" else 1 + sum(tree_size(x) for x in t[1:])


def tree_atoms(t):
    return [t[1]] if t[0] == "a" else [a for x in t[1:] for a in tree_atoms(x)]


def sexpr(t, atom=lambda i: f"a{i}"):
    if t[0] == "a":
        return atom(t[1])
    return "(" + t[0] + " " + " ".join(sexpr(x, atom) for x in t[1:]) + ")"


class Pool:
    """A fixed pool of distinct real predicate expressions over one frame; atom i <-> pool[i]."""

    def __init__(self, frame, makers):
        """frame: a dask-expr collection; makers: collection -> boolean collection"""
        self.frame = frame.expr
        self.exprs = [m(frame).expr for m in makers]
        self.by_name = {e._name: i for i, e in enumerate(self.exprs)}
        assert len(self.by_name) == len(self.exprs)
        self._cache = {}

    def build(self, t):
        from dask_expr._expr import And, Invert, Or

        if t in self._cache:
            return self._cache[t]
        if t[0] == "a":
            e = self.exprs[t[1]]
        elif t[0] == "not":
            e = Invert(self.build(t[1]))
        elif t[0] == "and":
            e = And(self.build(t[1]), self.build(t[2]))
        else:
            e = Or(self.build(t[1]), self.build(t[2]))
        if len(self._cache) < 200000:
            self._cache[t] = e
        return e

    def to_sexpr(self, e, atom=lambda i: f"a{i}"):
        """Render a real expression back: connectives by class, atoms by _name."""
        from dask_expr._expr import And, Invert, Or

        i = self.by_name.get(e._name)
        if i is not None:
            return atom(i)
        if isinstance(e, And):
            return f"(and {self.to_sexpr(e.left, atom)} {self.to_sexpr(e.right, atom)})"
        if isinstance(e, Or):
            return f"(or {self.to_sexpr(e.left, atom)} {self.to_sexpr(e.right, atom)})"
        if isinstance(e, Invert):
            return f"(not {self.to_sexpr(e.frame, atom)})"
        return f"?{type(e).__name__}"


def _small_frame():
    import dask_expr as dx

    pdf = pd.DataFrame({"a": [1.0, 2.0, None, 4.0], "b": [1, 2, 3, 4], "c": [5.0, None, 7.0, 8.0]})
    return dx.from_pandas(pdf, npartitions=2)


def abstract_pool():
    df = _small_frame()
    makers = [
        lambda f: (f["a"] > 1),
        lambda f: (f["b"] < 3),
        lambda f: (f["c"] == 7),
        lambda f: f["b"].isin([1, 2]),
        lambda f: f["c"].isna(),
        lambda f: (f["a"] < f["c"]),
    ]
    return Pool(df, makers)


# =========================================================================== T2: rewrite_filters & friends


def fam_rewrite(ctx):
    """T2: rewrite_filters / _get_predicate_components / _convert_mapping on real Expr predicates."""
    from dask_expr._expr import And, Or, _convert_mapping, _get_predicate_components, rewrite_filters

    f = Family("rewrite_filters[+_get_predicate_components,_convert_mapping,_replace_common_or_components]")
    pool = abstract_pool()
    memo = {}
    trees = []
    full_to = 6 if ctx.quick else 7  # 1674 / 8427 trees
    for n in range(1, full_to + 1):
        trees += trees_of_size(n, 3, memo)
    n_exh = len(trees)
    if ctx.quick:
        trees += ctx.rng.sample(trees_of_size(7, 3, memo), 1200)
    n_rand = 400 if ctx.quick else 4000
    for _ in range(n_rand):
        trees.append(random_tree(ctx.rng, ctx.rng.randint(6, 40), ctx.rng.choice([2, 3, 3, 4, 6])))
    # OR-of-ANDs with shared conjuncts: the shapes on which the rewrite actually fires
    for _ in range(300 if ctx.quick else 3000):
        nb = ctx.rng.randint(2, 4)
        common = [("a", ctx.rng.randrange(4)) for _ in range(ctx.rng.randint(0, 2))]
        branches = []
        for _b in range(nb):
            extra = [random_tree(ctx.rng, ctx.rng.randint(1, 3), 5) for _ in range(ctx.rng.randint(0, 2))]
            items = common + extra
            ctx.rng.shuffle(items)
            if not items:
                items = [("a", 4)]
            br = items[0]
            for it in items[1:]:
                br = ("and", br, it) if ctx.rng.random() < 0.7 else ("and", it, br)
            branches.append(br)
        t = branches[0]
        for br in branches[1:]:
            t = ("or", t, br) if ctx.rng.random() < 0.7 else ("or", br, t)
        trees.append(t)

    reqs, code, inputs, nontriv = [], [], [], []
    for t in trees:
        e = pool.build(t)
        s = sexpr(t)
        res = rewrite_filters(e)
        out = pool.to_sexpr(res)
        reqs.append("pred rewrite " + s)
        code.append(out)
        inputs.append({"fn": "rewrite_filters", "tree": s})
        nontriv.append(res._name != e._name)
        if tree_size(t) <= 5 or ctx.rng.random() < 0.1:
            for kind, cls in (("or", Or), ("and", And)):
                comps = _get_predicate_components(e, [], type_=cls)
                reqs.append(f"pred components {kind} " + s)
                code.append(" ; ".join(pool.to_sexpr(c) for c in comps))
                inputs.append({"fn": "_get_predicate_components", "type": kind, "tree": s})
                nontriv.append(len(comps) > 1)
            m = _convert_mapping(_get_predicate_components(e, [], type_=And))
            reqs.append("pred mapping " + s)
            code.append(" ; ".join(pool.to_sexpr(c) for c in m.values()))
            inputs.append({"fn": "_convert_mapping", "tree": s})
            nontriv.append(len(m) > 1)
    model = drive(reqs)
    f.compare(inputs, code, model, nontriv)
    f.exhaustive = True
    f.note = (f"all trees <= {full_to} nodes over 3 atoms ({n_exh}), "
              + ("seeded sample of 1200 7-node trees, " if ctx.quick else "")
              + f"{n_rand} random trees <= 40 nodes, OR-of-AND shapes with shared conjuncts; "
              f"rewrite fired on {sum(1 for i, x in zip(inputs, nontriv) if x and i['fn'] == 'rewrite_filters')}")
    return f


# =========================================================================== T2: _DNF

OPS = {"<": "lt", "<=": "le", "==": "eq", "!=": "ne", ">": "gt", ">=": "ge"}
COLS = ["a", "b", "c"]


def _concrete_makers():
    """(maker, token) pairs: concrete atoms over columns a,b,c <-> model atom tokens."""
    import operator as op

    out = []
    for col, o, fn, const in [("a", "lt", op.lt, 3), ("b", "ge", op.ge, 2), ("c", "eq", op.eq, 7), ("a", "ne", op.ne, 2),
                              ("b", "le", op.le, 1), ("c", "gt", op.gt, -1)]:
        out.append(((lambda f, col=col, fn=fn, const=const: fn(f[col], const)), f"c{COLS.index(col)}:{o}:{const}"))
    out.append(((lambda f: f["a"] < f["c"]), "k0:lt:2"))
    out.append(((lambda f: f["b"].isin([1, 2])), "i1:1,2"))
    out.append(((lambda f: f["c"].isna()), "n2"))
    return out


def canon_tuple(t):
    col, o, val = t
    return f"c{COLS.index(col)}:{OPS[o]}:{int(val)}"


def canon_filters(fl):
    """canonical text of a _DNF._filters value (frozensets) or of a list-of-lists-of-tuples"""
    if fl is None:
        return "None"
    conjs = set()
    for conj in fl:
        if isinstance(conj, tuple) and conj and isinstance(conj[0], str):
            conj = [conj]
        conjs.add("&".join(sorted({canon_tuple(t) for t in conj})))
    return "|".join(sorted(conjs))


def _parquet_dir(tmp, pdf, name="t"):
    d = os.path.join(tmp, name)
    os.makedirs(d, exist_ok=True)
    pdf.to_parquet(os.path.join(d, "part.0.parquet"))
    return d


def fam_dnf(ctx):
    """T2: _DNF.extract_pq_filters / normalize / combine / to_list_tuple and ReadParquet's acceptance test."""
    import dask_expr as dx
    from dask_expr._core import collect_dependents
    from dask_expr._expr import Filter
    from dask_expr.io.parquet import _DNF

    f = Family("_DNF[extract_pq_filters,normalize,combine,to_list_tuple]+ReadParquet._filter_passthrough_available")
    reqs, code, inputs, nontriv = [], [], [], []
    with tempfile.TemporaryDirectory() as tmp:
        pdf = pd.DataFrame({"a": [1.0, 2.0, None, 4.0], "b": [1, 2, 3, 4], "c": [5.0, None, 7.0, 8.0]})
        r = dx.read_parquet(_parquet_dir(tmp, pdf), filesystem="arrow")
        mk = _concrete_makers()
        pool = Pool(r, [m for m, _ in mk])
        toks = [t for _, t in mk]
        atom = lambda i: toks[i]  # noqa: E731
        memo = {}
        trees = []
        full_to = 3 if ctx.quick else 4
        for n in range(1, full_to + 1):
            trees += trees_of_size(n, len(toks), memo)
        for _ in range(500 if ctx.quick else 6000):
            # mostly negation-free trees over the pushable atoms so that extraction succeeds
            pushable = ctx.rng.random() < 0.8
            t = random_tree(ctx.rng, ctx.rng.randint(3, 13), 6 if pushable else len(toks), p_not=0.0 if pushable else 0.1)
            trees.append(t)
        for t in trees:
            e = pool.build(t)
            s = sexpr(t, atom)
            d = _DNF.extract_pq_filters(r.expr, e)
            fl = d._filters
            txt = canon_filters(fl)
            tl = canon_filters(d.to_list_tuple()) if fl is not None else "None"
            reqs.append("pred dnf " + s)
            code.append(txt + " ~ " + tl)
            inputs.append({"fn": "extract_pq_filters", "tree": s})
            nontriv.append(fl is not None)
            if tree_size(t) <= 4 or ctx.rng.random() < 0.15:
                parent = Filter(r.expr, e)
                deps = collect_dependents(parent)
                acc = bool(r.expr._filter_passthrough_available(parent, deps))
                reqs.append("pred accepts " + s)
                code.append("1" if acc else "0")
                inputs.append({"fn": "ReadParquet._filter_passthrough_available", "tree": s})
                nontriv.append(acc)
        n_extract = len(reqs)

        # normalize on nested frozensets / list forms, combine
        tuples = [("a", "<", 3), ("b", ">=", 2), ("c", "==", 7), ("a", "!=", 2), ("b", "<=", 1)]

        conflated = [0]

        def rand_filt(depth):
            """-> (python value, model text)"""
            if depth == 0 or ctx.rng.random() < 0.35:
                t = ctx.rng.choice(tuples)
                return t, canon_tuple(t)
            k = ctx.rng.randint(1, 3)
            subs = [rand_filt(depth - 1) for _ in range(k)]
            # frozenset semantics: python-equal siblings collapse into one element, and _And({x,y}) == _Or({x,y})
            # (frozenset subclasses compare and hash alike).  The code paths (extract_pq_filters, combine) only build
            # two-element sets of normalised values — modelled exactly by `pairSet`; for the direct n-ary normalize
            # inputs, sets with python-equal siblings are outside the modelled domain: skipped and counted.
            if len({s[0] for s in subs}) != len(subs):
                conflated[0] += 1
                return rand_filt(depth)
            if ctx.rng.random() < 0.5:
                return _DNF._And([s[0] for s in subs]), "(and " + " ".join(s[1] for s in subs) + ")"
            return _DNF._Or([s[0] for s in subs]), "(or " + " ".join(s[1] for s in subs) + ")"

        def rand_list():
            kind = ctx.rng.choice(["none", "tuple", "conj", "dnf"])
            if kind == "none":
                return None, "None"
            if kind == "tuple":
                t = ctx.rng.choice(tuples)
                return t, canon_tuple(t)
            if kind == "conj":
                c = [ctx.rng.choice(tuples) for _ in range(ctx.rng.randint(1, 3))]
                return c, "L:" + "&".join(canon_tuple(t) for t in c)
            dn = [[ctx.rng.choice(tuples) for _ in range(ctx.rng.randint(1, 3))] for _ in range(ctx.rng.randint(1, 3))]
            return dn, "L:" + "|".join("&".join(canon_tuple(t) for t in c) for c in dn)

        for _ in range(300 if ctx.quick else 3000):
            if ctx.rng.random() < 0.7:
                val, txt = rand_filt(3)
            else:
                val, txt = rand_list()
            if txt == "None":
                continue
            try:
                res = canon_filters(_DNF.normalize(val))
            except Exception as ex:  # noqa: BLE001
                res = f"ERR {type(ex).__name__}"
            reqs.append("pred normalize " + txt)
            code.append(res + " ~ " + res)
            inputs.append({"fn": "normalize", "filt": txt})
            nontriv.append("and" in txt)
        for _ in range(200 if ctx.quick else 2000):
            va, ta = rand_filt(2) if ctx.rng.random() < 0.8 else (None, "None")
            vb, tb = rand_list()
            a = _DNF(va)
            res = a.combine(vb)
            a_txt, b_txt = canon_filters(a._filters), canon_filters(_DNF(vb)._filters)
            out = canon_filters(res._filters)
            tl = canon_filters(res.to_list_tuple()) if res._filters is not None else "None"
            reqs.append(f"pred combine a={a_txt} b={b_txt}")
            code.append(out + " ~ " + tl)
            inputs.append({"fn": "combine", "a": a_txt, "b": b_txt})
            nontriv.append(a_txt != "None" and b_txt != "None")
    model = drive(reqs)
    model = [m if inputs[i]["fn"] == "ReadParquet._filter_passthrough_available" else m + " ~ " + m
             for i, m in enumerate(model)]
    f.compare(inputs, code, model, nontriv)
    f.note = (f"all trees <= {full_to} nodes over 9 concrete atoms + random negation-free/with-not trees <= 13 nodes "
              f"({n_extract} extract/accept evaluations); normalize on random nested _And/_Or (depth<=3, arity<=3) and list forms; "
              f"combine incl. None and raw list operands; {conflated[0]} generated n-ary sets skipped because python-equal siblings "
              f"(incl. an _And and an _Or with equal members) collapse into one frozenset element")
    return f


# =========================================================================== T4: pyarrow's evaluator is Kleene / null => drop


def fam_pyarrow(ctx):
    """T4: pq.filters_to_expression + dataset filtering keeps exactly the rows the model's keepDNF3 keeps;
    pandas keeps exactly the rows eval2c keeps."""
    import pyarrow as pa
    import pyarrow.dataset as pads
    import pyarrow.parquet as pq

    f = Family("pyarrow_kleene[pq.filters_to_expression on tables with nulls]+pandas_eval2c")
    vals = [None, 0, 1, 2, 3, 7]
    rows = [(x, y, z) for x in vals for y in (None, 1, 2) for z in (None, 7, 8)][:: (3 if ctx.quick else 1)]
    pdf = pd.DataFrame(rows, columns=COLS, dtype="float64")
    tbl = pa.Table.from_pandas(pdf.assign(rid=np.arange(len(pdf))), preserve_index=False)
    ds = pads.dataset(tbl)
    tuples = [("a", "<", 3), ("b", ">=", 2), ("c", "==", 7), ("a", "!=", 2), ("b", "<=", 1), ("c", "!=", 7), ("a", ">", 0)]
    import operator as op

    fns = {"<": op.lt, "<=": op.le, "==": op.eq, "!=": op.ne, ">": op.gt, ">=": op.ge}
    reqs, code, inputs = [], [], []
    for _ in range(40 if ctx.quick else 400):
        dnf = [[ctx.rng.choice(tuples) for _ in range(ctx.rng.randint(1, 3))] for _ in range(ctx.rng.randint(1, 3))]
        kept = set(ds.to_table(filter=pq.filters_to_expression(dnf)).column("rid").to_pylist())
        txt = "|".join("&".join(canon_tuple(t) for t in c) for c in dnf)
        # pandas reading of the same DNF
        mask = pd.Series(False, index=pdf.index)
        for c in dnf:
            m = pd.Series(True, index=pdf.index)
            for col, o, v in c:
                m &= fns[o](pdf[col], v)
            mask |= m
        tree = "(or " * (len(dnf) - 1)
        parts = []
        for c in dnf:
            parts.append("(and " * (len(c) - 1) + canon_tuple(c[0]) + "".join(" " + canon_tuple(t) + ")" for t in c[1:]))
        tree = parts[0]
        for p in parts[1:]:
            tree = f"(or {tree} {p})"
        for i, row in enumerate(rows):
            rtxt = ",".join("N" if v is None else str(v) for v in row)
            reqs.append(f"pred evalrow mode=dnf3 row={rtxt} {txt}")
            code.append("1" if i in kept else "0")
            inputs.append({"reader": "pyarrow", "dnf": txt, "row": rtxt})
            reqs.append(f"pred evalrow mode=2 row={rtxt} {tree}")
            code.append("1" if bool(mask.iloc[i]) else "0")
            inputs.append({"reader": "pandas", "tree": tree, "row": rtxt})
    model = drive(reqs)
    f.compare(inputs, code, model)
    f.note = f"{len(rows)} rows over values {{null,0,1,2,3,7}}; random DNFs of <=3 conjunctions of <=3 tuples incl. '!='"
    return f


# =========================================================================== T2: Merge decision tables

HOWS = ["inner", "left", "right", "outer", "leftsemi"]
SUFFIXES = [("_x", "_y"), ("", "_y"), ("_x", "")]


def _merge_frames():
    L = pd.DataFrame({"k": [1, 2, 3, 4, 5, 6], "a": [1.0, 0.5, None, 3.0, 2.0, 0.0], "b": [1, 2, 3, 1, 2, 3]})
    R = pd.DataFrame({"k": [2, 3, 4, 7, 8, 4], "b": [5, 1, 7, 8, 2, 1], "c": [1.0, None, 3.0, 4.0, 5.0, 0.0]})
    return L, R


# predicate makers over a merged frame: name -> fn(m, col) ; applicable when col exists
MERGE_PREDS = {
    "gt": lambda m, col: m[col] > 1,
    "ne": lambda m, col: m[col] != 1,
    "isin": lambda m, col: m[col].isin([1, 2, 5]),
    "not": lambda m, col: ~(m[col] > 1),
    "isna": lambda m, col: m[col].isna(),
    "arith": lambda m, col: (m[col] + 1) > 2,
}


def _classify_pc(merge, cols):
    if cols is None:
        return "unknown"
    if len(cols) == 0:
        return "empty"
    inl = cols.issubset(merge.left.columns)
    inr = cols.issubset(merge.right.columns)
    return "both" if inl and inr else "left" if inl else "right" if inr else "neither"


def _collisions(merge, cols):
    """the two suffix-collision tests of Merge._filter_sides, as written there"""
    ls, rs = merge.suffixes[0], merge.suffixes[1]
    cols = cols or set()
    lcoll = ls != "" and any(f"{c}{ls}" in merge.columns and c in merge.right.columns for c in cols)
    rcoll = rs != "" and any(f"{c}{rs}" in merge.columns and c in merge.left.columns for c in cols)
    return bool(lcoll), bool(rcoll)


def merge_configs(ctx):
    """Real merges of two small frames with real Filter parents and a root that fixes the dependents."""
    import dask_expr as dx

    L, R = _merge_frames()
    out = []
    for how in HOWS:
        for suf in SUFFIXES:
            dl, dr = dx.from_pandas(L, npartitions=2), dx.from_pandas(R, npartitions=2)
            try:
                m = dl.merge(dr, on="k", how=how, suffixes=suf)
                cols = list(m.columns)
            except Exception:  # noqa: BLE001
                continue
            for col in cols:
                for pname, pf in MERGE_PREDS.items():
                    for shape in ("single", "and", "and_dep", "shared_other", "two_filters", "shared_in_pred"):
                        out.append({"how": how, "suffixes": list(suf), "col": col, "pred": pname, "shape": shape})
            # column-vs-column predicates across sides
            for c1, c2 in itertools.combinations(cols, 2):
                out.append({"how": how, "suffixes": list(suf), "col": c1, "col2": c2, "pred": "colcol", "shape": "single"})
    return out


def build_merge_query(cfg, npartitions=2):
    """-> (merge collection m, filtered collection q, root expr whose dependents are used)"""
    import dask_expr as dx

    L, R = _merge_frames()
    dl, dr = dx.from_pandas(L, npartitions=npartitions), dx.from_pandas(R, npartitions=npartitions)
    m = dl.merge(dr, on="k", how=cfg["how"], suffixes=tuple(cfg["suffixes"]))
    col = cfg["col"]
    if cfg["pred"] == "colcol":
        p = m[col] < m[cfg["col2"]]
    else:
        p = MERGE_PREDS[cfg["pred"]](m, col)
    other_cols = [c for c in m.columns if c != col]
    shape = cfg["shape"]
    if shape == "single":
        q = m[p]
        root = q
    elif shape in ("and", "and_dep"):
        oc = other_cols[-1]
        p2 = m[oc] > 0
        q = m[p & p2]
        root = q
        if shape == "and_dep":
            # the left conjunct alone is also a consumer of the merge
            root = dx.concat([q, m[p]])
    elif shape == "shared_other":
        q = m[p]
        root = dx.concat([q, m])
    elif shape == "two_filters":
        q = m[p]
        root = dx.concat([q, m[m[other_cols[0]] > 0]])
    else:  # shared_in_pred: predicate reads a reduction over the merge itself
        q = m[p & (m[col] <= m[col].max())]
        root = q
    return m, q, root


def fam_merge(ctx):
    """T2: Merge._filter_passthrough_available and the side selection of Merge._simplify_up vs the decision tables."""
    from dask_expr._core import collect_dependents
    from dask_expr._expr import And, Filter, is_filter_pushdown_available
    from dask_expr._merge import Merge

    f = Family("Merge._filter_passthrough_available+_simplify_up(Filter)[how x side x suffix collision x consumers]")
    cfgs = merge_configs(ctx)
    if ctx.quick:
        ctx.rng.shuffle(cfgs)
        cfgs = cfgs[:450]
    reqs, code, inputs, nontriv = [], [], [], []
    cells = set()
    for cfg in cfgs:
        try:
            m, q, root = build_merge_query(cfg)
        except Exception:  # noqa: BLE001  (predicate not constructible on this column)
            continue
        merge = m.expr
        parent = q.expr
        if not isinstance(merge, Merge) or not isinstance(parent, Filter):
            continue
        deps = collect_dependents(root.expr)
        real = bool(merge._filter_passthrough_available(parent, deps))
        avail = bool(is_filter_pushdown_available(merge, parent, deps))
        pred = parent.predicate
        is_and = isinstance(pred, And)
        left = pred
        while isinstance(left, And):
            left = left.left
        pcols = merge._predicate_columns(left)
        side = _classify_pc(merge, pcols)
        dep = False
        if is_and:
            new = Filter(merge, pred.left)
            dep = new._name in {x()._name for x in deps[merge._name] if x() is not None}
        lcoll, rcoll = _collisions(merge, pcols)
        reqs.append(f"pred mergeside how={cfg['how']} side={side} lcoll={int(lcoll)} rcoll={int(rcoll)} "
                    f"avail={int(avail)} and={int(is_and)} dep={int(dep)}")
        code.append("1" if real else "0")
        inputs.append({"fn": "_filter_passthrough_available", **cfg})
        nontriv.append(real)
        cells.add((cfg["how"], side, lcoll, rcoll, avail, is_and, dep))
        if pcols is not None:
            # the helper both places share
            sides = merge._filter_sides(pcols)
            reqs.append(f"pred mergepush side={side} lcoll={int(lcoll)} rcoll={int(rcoll)}")
            code.append(("1" if sides[0] else "0") + ("1" if sides[1] else "0"))
            inputs.append({"fn": "_filter_sides", **cfg})
            nontriv.append(any(sides))
        if real and not is_and:
            res = merge._simplify_up(parent, deps)
            if res is None:
                got = "00"
            else:
                got = ("1" if res.left._name != merge.left._name else "0") + ("1" if res.right._name != merge.right._name else "0")
            reqs.append(f"pred mergepush side={side} lcoll={int(lcoll)} rcoll={int(rcoll)}")
            code.append(got)
            inputs.append({"fn": "_simplify_up", **cfg})
            nontriv.append(got != "00")
            cells.add(("push", side, lcoll, rcoll))
    model = drive(reqs)
    f.compare(inputs, code, model, nontriv)
    f.note = f"{len(cfgs)} configurations; distinct abstract cells reached: {len(cells)}"
    return f


def fam_pushavail(ctx):
    """T2: is_filter_pushdown_available = exactly-one-Filter-name / single-parent / _check_dependents_are_predicates."""
    import dask_expr as dx
    from dask_expr._core import collect_dependents
    from dask_expr._expr import Filter, _check_dependents_are_predicates, is_filter_pushdown_available

    f = Family("is_filter_pushdown_available[shared-consumer configurations]")
    reqs, code, inputs, nontriv = [], [], [], []
    pdf = pd.DataFrame({"a": [1.0, 2.0, None, 4.0], "b": [1, 2, 3, 4], "c": [5.0, None, 7.0, 8.0]})
    df = dx.from_pandas(pdf, npartitions=2)
    x = df.astype({"b": "float64"})
    shapes = {
        "single": lambda: (x[x.b > 1],) * 2,
        "pred_on_other_frame": lambda: (x[df.b > 1],) * 2,
        "two_same_filters": lambda: (x[x.b > 1], dx.concat([x[x.b > 1], x[x.b > 1]])),
        "two_filters": lambda: (x[x.b > 1], dx.concat([x[x.b > 1], x[x.a > 1]])),
        "filter_and_other": lambda: (x[x.b > 1], dx.concat([x[x.b > 1], x])),
        "filter_and_projection_outside": lambda: (x[x.b > 1], dx.concat([x[x.b > 1], x[["a"]]])),
        "reduction_in_pred": lambda: (x[x.b > x.b.mean()],) * 2,
        "pred_shared_outside": lambda: (x[x.b > 1], dx.concat([x[x.b > 1].b, x.b > 1])),
        "and_pred": lambda: (x[(x.b > 1) & (x.a < 3)],) * 2,
        "nested_filter": lambda: (x[x.b > 1][x.a > 0],) * 2,
    }
    for name, mk in shapes.items():
        q, root = mk()
        parent = q.expr
        while not (isinstance(parent, Filter) and parent.frame._name == x.expr._name):
            parent = parent.frame
        deps = collect_dependents(root.expr)
        for allow in (True, False):
            real = bool(is_filter_pushdown_available(x.expr, parent, deps, allow_reduction=allow))
            parents = [p() for p in deps[x.expr._name] if p() is not None]
            nf = len({e._name for e in parents if isinstance(e, Filter)})
            others = {e._name for e in parents if not isinstance(e, Filter)}
            inpred = bool(_check_dependents_are_predicates(x.expr, others, parent, deps, allow))
            reqs.append(f"pred pushavail nfilters={nf} nparents={len(parents)} inpred={int(inpred)}")
            code.append("1" if real else "0")
            inputs.append({"shape": name, "allow_reduction": allow})
            nontriv.append(len(parents) > 1)
    model = drive(reqs)
    f.compare(inputs, code, model, nontriv)
    f.exhaustive = True
    f.note = "counting part only; the predicate-graph walk is an input computed by the real function"
    return f


# =========================================================================== T4: category conformance of flagged classes


def _conf_frames():
    fl = pd.DataFrame({"a": [0.5, 1.5, -0.5, 2.0, 0.0, 3.5], "b": [1, 2, 3, 1, 2, 3], "c": [5.0, None, 7.0, 8.0, None, 1.0]},
                      index=pd.Index([10, 11, 12, 13, 14, 15], name=None))
    st = pd.DataFrame({"s": pd.array(["x", None, "y", "x", "z", None], dtype="object"), "b": [1, 2, 3, 1, 2, 3]})
    per = pd.DataFrame({"a": [1.0, None, 3.0, 4.0], "b": [1, 2, 3, 4]}, index=pd.period_range("2000-01", periods=4, freq="M"))
    return fl, st, per


def conformance_cases():
    """(class name, case id, builder(dx, frames) -> (collection x = op(input), predicate fn on x), order_free, drop_index)"""
    import dask_expr as dx
    from dask_expr import _expr as E

    fl, st, per = _conf_frames()

    def dfl(n=2):
        return dx.from_pandas(fl, npartitions=n, sort=False)

    cases = []

    opname = {"AsType": "astype", "ResetIndex": "reset_index", "RenameAxis": "rename_axis", "_DeepCopy": "copy",
              "Repartition": "repartition", "Shuffle": "shuffle", "SortValues": "sort_values", "SetIndex": "set_index",
              "Filter": "filter"}

    def add(cls, cid, mk, preds, order_free=False, drop_index=False):
        for pn, pf in preds.items():
            sig = {"kind": "cross", "op": opname.get(cls, cls.lower().lstrip("_"))}
            if cls == "ResetIndex":
                sig["former_index"] = "mixed" if pn.startswith("index_and") or pn.startswith("index_lt") else "only" if pn.startswith("index") else "none"
            cases.append({"cls": cls, "case": cid, "pred": pn, "mk": mk, "pf": pf, "order_free": order_free,
                          "drop_index": drop_index, "sig": sig})

    num_preds = {
        "a_gt0": lambda x: x["a"] > 0,
        "c_ne7": lambda x: x["c"] != 7,
        "c_isna": lambda x: x["c"].isna(),
        "b_isin": lambda x: x["b"].isin([1, 3]),
        "a_lt_c": lambda x: x["a"] < x["c"],
        "or": lambda x: (x["a"] > 1) | (x["c"] == 7),
    }
    add("AsType", "all_int64", lambda: dfl()[["a", "b"]].astype("int64"),
        {"a_gt0": num_preds["a_gt0"], "b_isin": num_preds["b_isin"], "a_eq0": lambda x: x["a"] == 0})
    add("AsType", "b_float", lambda: dfl().astype({"b": "float64"}), num_preds)
    add("AsType", "a_str", lambda: dfl().astype({"b": "str"}), {"b_eq": lambda x: x["b"] == "2", "a_gt0": num_preds["a_gt0"]})
    add("AsType", "b_int32", lambda: dfl().astype({"b": "int32"}), {"b_isin": num_preds["b_isin"], "a_gt0": num_preds["a_gt0"]})
    add("AsType", "int32_to_int64", lambda: dfl().astype({"b": "int32"}).astype({"b": "int64"}), {"b_isin": num_preds["b_isin"]})
    add("AsType", "float_to_float32", lambda: dfl().astype({"a": "float32"}), {"a_gt0": num_preds["a_gt0"], "a_eq": lambda x: x["a"] == 0.5})
    big = pd.DataFrame({"d": np.array([2**53 + 1, 5, 2**53, 2**53 + 3], dtype="int64"), "b": [1, 2, 3, 4]})
    add("AsType", "int64_to_float64_above_2p53", lambda: dx.from_pandas(big, npartitions=2, sort=False).astype({"d": "float64"}),
        {"d_gt": lambda x: x["d"] > 2**53, "d_eq": lambda x: x["d"] == 2**53})
    cases[-1]["sig"] = cases[-2]["sig"] = {"kind": "cross", "op": "astype_int64_to_float64_above_2p53"}
    sens = pd.DataFrame({"x": [0.1, 0.5, 16777217.0, 1e-50, np.nan, 2.0], "n": [1, 2**32 + 1, 300, -1, 2**31, 7],
                         "k": [1, 2, 3, 4, 5, 6]})
    narrow_preds = {
        "x_eq_f32_0.1": lambda x: x["x"] == np.float32(0.1), "x_eq_0": lambda x: x["x"] == 0, "x_eq_2p24": lambda x: x["x"] == 16777216.0,
        "n_eq_1": lambda x: x["n"] == 1, "n_lt_0": lambda x: x["n"] < 0, "or": lambda x: (x["n"] == 1) | x["x"].isna(),
        "k_gt": lambda x: x["k"] > 2,
    }
    add("AsType", "narrow_f32_i32", lambda: dx.from_pandas(sens, npartitions=2, sort=False).astype({"x": "float32", "n": "int32"}),
        narrow_preds)
    add("AsType", "narrow_i16", lambda: dx.from_pandas(sens, npartitions=2, sort=False).astype({"n": "int16"}),
        {"n_eq_1": narrow_preds["n_eq_1"], "n_lt_0": narrow_preds["n_lt_0"], "n_eq_44": lambda x: x["n"] == 300})
    add("AsType", "narrow_f16", lambda: dx.from_pandas(sens, npartitions=2, sort=False)[["x", "k"]].astype({"x": "float16"}),
        {"x_eq_0": narrow_preds["x_eq_0"], "x_isinf": lambda x: x["x"] > 1e6, "x_eq_half": lambda x: x["x"] == 0.5})
    add("AsType", "widen_k", lambda: dx.from_pandas(sens, npartitions=2, sort=False).astype({"k": "float64"}), {"k_gt": narrow_preds["k_gt"]})
    add("AsType", "i32_to_f32", lambda: dx.from_pandas(sens.assign(k=sens.k + 2**24).astype({"k": "int32"}), npartitions=2, sort=False)
        .astype({"k": "float32"}), {"k_eq": lambda x: x["k"] == 16777218.0, "k_gt": lambda x: x["k"] > 16777217})
    add("AsType", "c_Int64", lambda: dfl().astype({"c": "Int64"}), {"c_ne7": num_preds["c_ne7"], "c_isna": num_preds["c_isna"]})
    add("ResetIndex", "frame", lambda: dfl().reset_index(),
        {**num_preds, "index_gt": lambda x: x["index"] > 11, "index_and_a": lambda x: (x["index"] > 11) & (x["a"] > 0),
         "index_lt_b": lambda x: x["index"] < x["b"] + 11}, drop_index=True)
    add("ResetIndex", "drop", lambda: dfl().reset_index(drop=True), num_preds, drop_index=True)
    add("ResetIndex", "series", lambda: dfl()["a"].reset_index(),
        {"a_gt0": num_preds["a_gt0"], "index_gt": lambda x: x["index"] > 11,
         "index_and_a": lambda x: (x["index"] > 11) & (x["a"] > 0)}, drop_index=True)
    add("RenameAxis", "index", lambda: dfl().rename_axis(index="ii"), num_preds)
    add("RenameSeries", "name", lambda: dfl()["a"].rename("z"), {"gt0": lambda x: x > 0, "ne": lambda x: x != 0.5})
    add("ToFrame", "series", lambda: dfl()["c"].to_frame(), {"c_ne7": num_preds["c_ne7"], "c_isna": num_preds["c_isna"]})
    add("ToFrame", "renamed", lambda: dfl()["c"].to_frame(name="zz"), {"ne7": lambda x: x["zz"] != 7})
    add("ToFrameIndex", "index", lambda: dfl().index.to_frame(name="i"), {"gt": lambda x: x["i"] > 11})
    add("ToSeriesIndex", "index", lambda: dfl().index.to_series(), {"gt": lambda x: x > 11})
    add("AddPrefixSeries", "s", lambda: dfl()["a"].add_prefix("p_"), {"gt0": lambda x: x > 0})
    add("AddSuffixSeries", "s", lambda: dfl()["c"].add_suffix("_s"), {"ne7": lambda x: x != 7})
    add("_DeepCopy", "frame", lambda: dx.new_collection(E._DeepCopy(dfl().expr)), num_preds)
    add("ArrowStringConversion", "obj",
        lambda: dx.new_collection(E.ArrowStringConversion(dx.from_pandas(st, npartitions=2, sort=False).expr)),
        {"s_eq": lambda x: x["s"] == "x", "s_ne": lambda x: x["s"] != "x", "s_isna": lambda x: x["s"].isna(), "b": lambda x: x["b"] > 1})
    add("ToTimestamp", "period", lambda: dx.from_pandas(per, npartitions=2).to_timestamp(),
        {"a_gt": lambda x: x["a"] > 1, "a_ne": lambda x: x["a"] != 3})
    add("Filter", "filter", lambda: dfl()[dfl()["b"] > 1], num_preds)
    add("Repartition", "more", lambda: dfl().repartition(npartitions=3), num_preds)
    add("Repartition", "fewer", lambda: dfl(3).repartition(npartitions=1), num_preds)
    add("Shuffle", "tasks", lambda: dfl().shuffle("b", shuffle_method="tasks"), num_preds, order_free=True)
    add("Shuffle", "disk", lambda: dfl().shuffle("b", shuffle_method="disk", npartitions=3), num_preds, order_free=True)
    add("SortValues", "b", lambda: dfl().sort_values("b", shuffle_method="tasks"), num_preds, order_free=True)
    add("SortValues", "c_nulls", lambda: dfl().sort_values("c", shuffle_method="tasks"), num_preds, order_free=True)
    add("SetIndex", "b", lambda: dfl().set_index("b", shuffle_method="tasks"), {k: v for k, v in num_preds.items() if k != "b_isin"},
        order_free=True)
    add("SetIndex", "keep", lambda: dfl().set_index("b", drop=False, shuffle_method="tasks"), num_preds, order_free=True)
    return cases


def _apply_rule_once(x, q):
    """Ask the real class whether the filter may cross and, if so, perform exactly that rewrite."""
    from dask_expr._core import collect_dependents

    op, parent = x.expr, q.expr
    deps = collect_dependents(parent)
    if not op._filter_passthrough_available(parent, deps):
        return None
    res = op._simplify_up(parent, deps)
    return res


def fam_conformance(ctx):
    """T4: for every flagged class that can be instantiated simply, on frames with nulls: whenever the class lets
    the filter cross, the crossed plan returns the rows of the uncrossed plan (both executed without further rewriting)."""
    import dask_expr as dx

    f = Family("category_conformance[flagged classes: op-then-filter vs the class's own crossed plan]")
    open_sigs = [k["signature"] for k in known_findings("C03") if k.get("status") == "open"]
    seen_cls = set()
    demoted = []
    for c in conformance_cases():
        try:
            x = c["mk"]()
            q = x[c["pf"](x)]
        except Exception as ex:  # noqa: BLE001
            f.compare([{"cls": c["cls"], "case": c["case"], "pred": c["pred"]}], [f"build error {type(ex).__name__}: {ex}"[:200]], ["built"])
            continue
        inp = {"cls": c["cls"], "case": c["case"], "pred": c["pred"], "actual_class": type(x.expr).__name__}
        try:
            res = _apply_rule_once(x, q)
            if res is None:
                f.compare([inp], ["not crossed"], ["not crossed"], [False])
                continue
            seen_cls.add(type(x.expr).__name__)
            base = pd.concat(e2e.compute_partitions(q.expr, optimize=False))
            crossed = pd.concat(e2e.compute_partitions(res, optimize=False))
            a = e2e.canon_obj(crossed, sort_rows=c["order_free"], drop_index=c["drop_index"])
            b = e2e.canon_obj(base, sort_rows=c["order_free"], drop_index=c["drop_index"])
        except Exception as ex:  # noqa: BLE001
            a, b = f"error {type(ex).__name__}: {ex}"[:300], "rows of the uncrossed plan"
        if a != b:
            sig = c["sig"]
            if any(all(sig.get(k) == v for k, v in s.items()) for s in open_sigs):
                demoted.append(f"{c['cls']}/{c['case']}/{c['pred']}")
                continue
        f.compare([inp], [str(a)], [str(b)], [True])
    from harness.extractors import filter_flag_rows

    flagged = sorted(r[1] for r in filter_flag_rows() if r[2])
    f.note = (f"classes exercised with a crossing: {sorted(seen_cls)}; flagged classes without a simple instance here "
              f"(covered by their base class or by the end-to-end search): {sorted(set(flagged) - seen_cls)}"
              + (f"; disagreements matching an open known finding: {demoted}" if demoted else ""))
    return f


def fam_or_parent(ctx):
    """T2: the parent re-assembly of Filter._simplify_up after OR-factoring = `parent.substitute(self, new)`."""
    import dask_expr as dx
    from dask_expr._core import collect_dependents
    from dask_expr._expr import Expr, Filter, rewrite_filters

    f = Family("Filter._simplify_up[OR rewrite: parent re-assembly by operand position]")
    pdf = pd.DataFrame({"a": [1.0, 2.0, None, 4.0], "b": [1, 2, 3, 4], "c": [5.0, None, 7.0, 8.0]})
    df = dx.from_pandas(pdf, npartitions=2)
    other = dx.from_pandas(pdf.rename(columns={"a": "x", "c": "y"}), npartitions=2)
    preds = {
        "factor": lambda d: ((d.b > 1) & (d.a > 1)) | ((d.b > 1) & (d.c > 5)),
        "dup": lambda d: (d.b > 1) | (d.b > 1),
        "consume": lambda d: ((d.b > 1) & (d.a > 1)) | (d.b > 1),
        "nofire": lambda d: (d.b > 1) | (d.a > 1),
    }
    parents = {
        "projection": lambda q: q[["a", "b"]],
        "sum": lambda q: q.sum(),
        "merge_left": lambda q: q.merge(other, on="b"),
        "merge_right": lambda q: other.merge(q, on="b"),
        "add_left": lambda q: q + df,
        "add_right": lambda q: df + q,
        "concat_first": lambda q: dx.concat([q, df]),
        "concat_second": lambda q: dx.concat([df, q]),
        "filter_parent": lambda q: q[q.a > 0],
        "assign_value": lambda q: df.assign(z=q.a),
    }
    reqs, code, inputs, nontriv = [], [], [], []
    for pn, pf in preds.items():
        for parn, parf in parents.items():
            q = df[pf(df)]
            fil = q.expr
            par = parf(q).expr
            # the direct parent of the filter inside `par`
            parent = next((e for e in par.walk() if any(isinstance(o, Expr) and o._name == fil._name for o in e.operands)), None)
            if parent is None or not isinstance(fil, Filter):
                continue
            deps = collect_dependents(par)
            res = fil._simplify_up(parent, deps)
            fired = rewrite_filters(fil.predicate)._name != fil.predicate._name
            toks = ["self" if isinstance(o, Expr) and o._name == fil._name else f"o{i}" for i, o in enumerate(parent.operands)]
            if not fired:
                continue  # the other branches of _simplify_up are not this family's subject
            new = Filter(fil.frame, rewrite_filters(fil.predicate))
            if res is None or type(res) is not type(parent):
                got = "?" + type(res).__name__
            else:
                out = []
                for i, o in enumerate(res.operands):
                    inb = i < len(parent.operands)
                    orig = parent.operands[i] if inb else None
                    if isinstance(o, Expr) and o._name == new._name and isinstance(orig, Expr) and orig._name == fil._name:
                        out.append("new")
                    elif isinstance(o, Expr) and isinstance(orig, Expr):
                        # other operands: untouched, or (deeper occurrences) what the real substitute makes of them
                        ok = o._name == orig._name or o._name == orig.substitute(fil, new)._name
                        out.append(toks[i] if ok else "?")
                    else:
                        same = inb and not isinstance(orig, Expr) and (orig is o or repr(orig) == repr(o))
                        out.append(toks[i] if same else "?")
                got = ",".join(out)
            reqs.append("pred rebuild ops=" + ",".join(toks))
            code.append(got)
            inputs.append({"pred": pn, "parent": parn, "parent_class": type(parent).__name__, "operands": ",".join(toks)})
            nontriv.append(toks[0] != "self")
    model = drive(reqs)
    f.compare(inputs, code, model, nontriv)
    f.exhaustive = True
    f.note = ("operand-level view of parent.substitute(self, new) (C03_or_rewrite_parent); positions reached with the filter "
              "not the first operand: "
              + str(sorted({i["parent"] for i, nt in zip(inputs, nontriv) if nt})))
    return f


NUMPY_DTYPES = ["bool", "int8", "int16", "int32", "int64", "uint8", "uint16", "uint32", "uint64", "float16", "float32", "float64"]


def fam_castguard(ctx):
    """T2: AsType._is_value_preserving (and np.can_cast 'safe' underneath) vs the model's castGuard / numpySafe table,
    every ordered pair of numpy numeric dtypes, single-column and two-column frames, plus non-numpy targets."""
    import dask_expr as dx
    from dask_expr._expr import AsType

    f = Family("AsType._is_value_preserving[all numpy numeric dtype pairs + extension targets]")
    reqs, code, inputs, nontriv = [], [], [], []
    frames = {}
    for o in NUMPY_DTYPES:
        pdf = pd.DataFrame({"v": np.array([0, 1, 1, 0], dtype=o), "w": np.array([1, 0, 1, 1], dtype="int16")})
        frames[o] = dx.from_pandas(pdf, npartitions=2, sort=False)
    for o in NUMPY_DTYPES:
        for n in NUMPY_DTYPES:
            x = frames[o].astype({"v": n})
            e = x.expr
            real = bool(e._is_value_preserving()) if isinstance(e, AsType) else (o == n)
            safe = bool(np.can_cast(np.dtype(o), np.dtype(n), casting="safe"))
            reqs.append(f"pred castguard from={o} to={n}")
            code.append(f"guard={int(real)} safe={int(safe)}")
            inputs.append({"from": o, "to": n})
            nontriv.append(o != n)
            # Series form
            sx = frames[o]["v"].astype(n).expr
            if isinstance(sx, AsType):
                reqs.append(f"pred castguard from={o} to={n}")
                code.append(f"guard={int(bool(sx._is_value_preserving()))} safe={int(safe)}")
                inputs.append({"from": o, "to": n, "series": True})
                nontriv.append(o != n)
    # a frame is value preserving iff every column is: second column int16 -> n2 together with v: o -> n
    for _ in range(60 if ctx.quick else 600):
        o, n, n2 = ctx.rng.choice(NUMPY_DTYPES), ctx.rng.choice(NUMPY_DTYPES), ctx.rng.choice(NUMPY_DTYPES)
        e = frames[o].astype({"v": n, "w": n2}).expr
        if not isinstance(e, AsType):
            continue
        m = drive([f"pred castguard from={o} to={n}", f"pred castguard from=int16 to={n2}"])
        want = all(x.startswith("guard=1") for x in m)
        f.compare([{"from": o, "to": n, "w_to": n2}], [str(bool(e._is_value_preserving()))], [str(want)], [True])
    # non-numpy targets are never value preserving (unless equal)
    for o, n in [("int64", "Int64"), ("float64", "Float64"), ("int64", "str"), ("int64", "category"), ("float64", "Int64"),
                 ("int32", "string[pyarrow]")]:
        try:
            e = frames[o].astype({"v": n}).expr
        except Exception:  # noqa: BLE001
            continue
        reqs.append(f"pred castguard from={o} to={n}")
        code.append(f"guard={int(bool(e._is_value_preserving()))} safe=?")
        inputs.append({"from": o, "to": n})
        nontriv.append(True)
    model = drive(reqs)
    f.compare(inputs, code, model, nontriv)
    f.exhaustive = True
    f.note = "12 x 12 numpy dtype pairs (frame and series form), random two-column casts, 6 extension/str/category targets"
    return f


def families(ctx):
    return [fam_rewrite, fam_or_parent, fam_dnf, fam_pyarrow, fam_merge, fam_pushavail, fam_castguard, fam_conformance]


# =========================================================================== end-to-end support / failing-input search

# --- data with nulls


def _data():
    return pd.DataFrame(
        {
            "a": [0.5, 1.5, None, 2.0, 0.0, 3.5, -1.0, 2.0],
            "b": [1, 2, 3, 1, 2, 3, 0, 4],
            "c": [5.0, None, 7.0, 8.0, None, 1.0, 2.0, 2.0],
            "d": [2, 1, 2, 8, 0, 1, 2, 3],
            # values that change under a narrowing cast (float32: 0.1 inexact, 2**24+1 rounds, 1e-50 underflows;
            # int32: 2**32+1 wraps to 1, 2**31 wraps negative)
            "x": [0.1, 0.5, 16777217.0, 1e-50, None, 2.0, 0.1, 3.0],
            "n": [1, 2**32 + 1, 300, -1, 2**31, 7, 2**32 + 1, 0],
        },
        index=pd.Index([10, 11, 12, 13, 14, 15, 16, 17]),
    )


# atoms: name -> fn(frame-like) ; the same function is applied to the dask frame and the pandas frame
ATOMS = {
    "a<1": lambda x: x["a"] < 1,
    "a<=2": lambda x: x["a"] <= 2,
    "c==2": lambda x: x["c"] == 2,
    "c!=2": lambda x: x["c"] != 2,
    "a!=2": lambda x: x["a"] != 2,
    "b_isin": lambda x: x["b"].isin([1, 3]),
    "c_isna": lambda x: x["c"].isna(),
    "a<c": lambda x: x["a"] < x["c"],
    "b>=d": lambda x: x["b"] >= x["d"],
    "a>0": lambda x: x["a"] > 0,
    "d<bmax": lambda x: x["d"] < x["b"].max(),  # column vs reduction over the filtered frame itself
    # the index as predicate operand (skipped for operators after which dask's index is unspecified)
    "idx>12": lambda x: x.index.to_series() > 12,
    # the former index as a column (only constructible after reset_index)
    "index>12": lambda x: x["index"] > 12,
    "index<b+11": lambda x: x["index"] < x["b"] + 11,
    "d>2^53": lambda x: x["d"] > 2**53,
    "x==f32(0.1)": lambda x: x["x"] == np.float32(0.1),
    "n==1": lambda x: x["n"] == 1,
    "n<0": lambda x: x["n"] < 0,
    "x==0": lambda x: x["x"] == 0,
}
ATOM_NAMES = list(ATOMS)
IDX_ATOM = ATOM_NAMES.index("idx>12")
FORMER_INDEX_ATOMS = [ATOM_NAMES.index("index>12"), ATOM_NAMES.index("index<b+11")]


def eval_tree(t, x, atoms=ATOMS, names=ATOM_NAMES):
    if t[0] == "a":
        return atoms[names[t[1]]](x)
    if t[0] == "not":
        return ~eval_tree(t[1], x, atoms, names)
    l, r = eval_tree(t[1], x, atoms, names), eval_tree(t[2], x, atoms, names)
    return (l & r) if t[0] == "and" else (l | r)


def _jsonable_tree(t):
    return list(t) if t[0] == "a" else [t[0]] + [_jsonable_tree(x) for x in t[1:]]


def _tuple_tree(t):
    return tuple(t) if t[0] == "a" else (t[0],) + tuple(_tuple_tree(x) for x in t[1:])


# operator kinds a filter can (or might) cross: name -> (dask fn, pandas fn, order_free, drop_index, columns lost)
def _ops():
    return {
        "projection": (lambda d: d[["a", "b", "c", "d"]], lambda p: p[["a", "b", "c", "d"]], False, False),
        "arith": (lambda d: d + 0, lambda p: p + 0, False, False),
        "assign": (lambda d: d.assign(z=d.b + 1), lambda p: p.assign(z=p.b + 1), False, False),
        "rename": (lambda d: d.rename(columns={"a": "A", "c": "C"}).rename(columns={"A": "a", "C": "c"}), lambda p: p, False, False),
        "astype": (lambda d: d.astype({"b": "float64"}), lambda p: p.astype({"b": "float64"}), False, False),
        "astype_int": (lambda d: d.fillna(0).astype("int64"), lambda p: p.fillna(0).astype("int64"), False, False),
        "astype_narrow": (lambda d: d.astype({"x": "float32", "n": "int32"}), lambda p: p.astype({"x": "float32", "n": "int32"}),
                          False, False),
        "astype_big": (lambda d: d.assign(d=d["d"] + (2**53 - 1)).astype({"d": "float64"}),
                       lambda p: p.assign(d=p["d"] + (2**53 - 1)).astype({"d": "float64"}), False, False),
        "astype_Int64": (lambda d: d.astype({"c": "Int64"}), lambda p: p.astype({"c": "Int64"}), False, False),
        "reset_index": (lambda d: d.reset_index(), lambda p: p.reset_index(), False, True),
        "reset_index_drop": (lambda d: d.reset_index(drop=True), lambda p: p.reset_index(drop=True), False, True),
        "series_reset_index": (lambda d: d["a"].reset_index(), lambda p: p["a"].reset_index(), False, True),
        "rename_axis": (lambda d: d.rename_axis(index="ii"), lambda p: p.rename_axis(index="ii"), False, False),
        "copy": (lambda d: d.copy(), lambda p: p.copy(), False, False),
        "sort_values": (lambda d: d.sort_values("b", shuffle_method="tasks"), lambda p: p.sort_values("b"), True, False),
        "set_index": (lambda d: d.set_index("d", drop=False, shuffle_method="tasks"), lambda p: p.set_index("d", drop=False), True, False),
        "shuffle": (lambda d: d.shuffle("b", shuffle_method="tasks"), lambda p: p, True, False),
        "shuffle_disk": (lambda d: d.shuffle("b", shuffle_method="disk", npartitions=3), lambda p: p, True, False),
        "repartition": (lambda d: d.repartition(npartitions=3), lambda p: p, False, False),
        "filter": (lambda d: d[d.d > 0], lambda p: p[p.d > 0], False, False),
        "two_ops": (lambda d: d.reset_index(drop=True).astype({"b": "float64"}).repartition(npartitions=1),
                    lambda p: p.reset_index(drop=True).astype({"b": "float64"}), False, True),
    }


SHARED = ["none", "other_consumer", "pred_reduction", "two_filters", "then_project", "then_index"]


def run_cross(case):
    """df -> op -> [pred]; optimised dask vs pandas.  None = property holds."""
    import dask_expr as dx

    pdf = _data()
    dfn, pfn, order_free, drop_index = _ops()[case["op"]]
    t = _tuple_tree(case["tree"])
    if drop_index and IDX_ATOM in tree_atoms(t):
        raise ValueError("index atom after an operator that leaves the index unspecified")
    df = dx.from_pandas(pdf, npartitions=case.get("npartitions", 3), sort=False)
    x = dfn(df)
    px = pfn(pdf)
    q = x[eval_tree(t, x)]
    exp = px[eval_tree(t, px)]
    shared = case.get("shared", "none")
    if shared == "other_consumer":
        tot = x["b"].sum()
        r = e2e.run_or_err(lambda: dx.concat([q, x]).compute())  # the frame has a second consumer
        if r[0] == "err":
            return f"raised {r[1]}: {r[2]}"
        exp2 = pd.concat([exp, px])
        return None if e2e.same(r[1], exp2, sort_rows=True, drop_index=True) else _diff("shared consumer", exp2, r[1])
    if shared == "pred_reduction":
        q = x[eval_tree(t, x) & (x["b"] <= x["b"].max())]
        exp = px[eval_tree(t, px) & (px["b"] <= px["b"].max())]
    if shared == "two_filters":
        q2 = x[x["d"] > 1]
        r = e2e.run_or_err(lambda: dx.concat([q, q2]).compute())
        if r[0] == "err":
            return f"raised {r[1]}: {r[2]}"
        exp2 = pd.concat([exp, px[px["d"] > 1]])
        return None if e2e.same(r[1], exp2, sort_rows=True, drop_index=True) else _diff("two filters", exp2, r[1])
    if shared == "then_project":
        q, exp = q[["b", "a"]], exp[["b", "a"]]
    if shared == "then_index":
        if drop_index:
            return None
        q, exp = q.index, exp.index
    r = e2e.run_or_err(lambda: q.compute())
    if r[0] == "err":
        return f"raised {r[1]}: {r[2]}"
    if e2e.same(r[1], exp, sort_rows=order_free, drop_index=drop_index):
        return None
    return _diff("rows differ", exp, r[1])


def _diff(what, exp, got):
    return f"{what}: expected (pandas) {len(exp)} rows\n{e2e.describe(exp)}\ngot (optimised dask) {len(got)} rows\n{e2e.describe(got)}"


def run_merge(case):
    """merge -> [pred]; optimised dask vs pandas (rows compared as multisets, index dropped)."""
    import dask_expr as dx

    L, R = _merge_frames()
    cfg = case
    m, q, root = build_merge_query(cfg, npartitions=case.get("npartitions", 2))
    if cfg["how"] == "leftsemi":
        pm = L[L.k.isin(R.k)]
    else:
        pm = L.merge(R, on="k", how=cfg["how"], suffixes=tuple(cfg["suffixes"]))
    col = cfg["col"]
    if cfg["pred"] == "colcol":
        pp = pm[col] < pm[cfg["col2"]]
    else:
        pp = MERGE_PREDS[cfg["pred"]](pm, col)
    other_cols = [c for c in pm.columns if c != col]
    shape = cfg["shape"]
    if shape in ("and", "and_dep"):
        pp = pp & (pm[other_cols[-1]] > 0)
    if shape == "shared_in_pred":
        pp = pp & (pm[col] <= pm[col].max())
    exp = pm[pp]
    if shape == "and_dep":
        exp = pd.concat([exp, pm[MERGE_PREDS[cfg["pred"]](pm, col)]])
    elif shape == "shared_other":
        exp = pd.concat([exp, pm])
    elif shape == "two_filters":
        exp = pd.concat([exp, pm[pm[other_cols[0]] > 0]])
    r = e2e.run_or_err(lambda: root.compute())
    if r[0] == "err":
        return f"raised {r[1]}: {r[2]}"
    if e2e.same(r[1], exp, sort_rows=True, drop_index=True):
        return None
    return _diff("rows differ", exp, r[1])


# --- the filter as a non-first operand of its parent (Merge right input, binop right operand, Concat frames)

POSITIONS = ["merge_right", "merge_left", "binop_right", "binop_left", "concat_second", "concat_first"]


def run_operand(case):
    import dask_expr as dx

    pdf = _data()
    other = pd.DataFrame({"d": [0, 1, 2, 3, 8, 9], "w": [100, 101, 102, 103, 108, 109]})
    t = _tuple_tree(case["tree"])
    df = dx.from_pandas(pdf, npartitions=2, sort=False)
    do = dx.from_pandas(other, npartitions=2, sort=False)
    q = df[eval_tree(t, df)]
    pq = pdf[eval_tree(t, pdf)]
    pos = case["position"]
    sort_rows, drop_index = True, True
    if pos == "merge_right":
        res, exp = do.merge(q, on="d", how=case.get("how", "inner")), other.merge(pq, on="d", how=case.get("how", "inner"))
    elif pos == "merge_left":
        res, exp = q.merge(do, on="d", how=case.get("how", "inner")), pq.merge(other, on="d", how=case.get("how", "inner"))
    elif pos == "binop_right":
        res, exp = df + q, pdf + pq
        sort_rows, drop_index = False, False
    elif pos == "binop_left":
        res, exp = q + df, pq + pdf
        sort_rows, drop_index = False, False
    elif pos == "concat_second":
        res, exp = dx.concat([df, q]), pd.concat([pdf, pq])
    else:
        res, exp = dx.concat([q, df]), pd.concat([pq, pdf])
    r = e2e.run_or_err(lambda: res.compute())
    if r[0] == "err":
        return f"raised {r[1]}: {r[2]}"
    if list(r[1].columns) != list(exp.columns):
        return f"columns differ: expected {list(exp.columns)} got {list(r[1].columns)}\n" + _diff("rows", exp, r[1])
    if e2e.same(r[1], exp, sort_rows=sort_rows, drop_index=drop_index):
        return None
    return _diff("rows differ", exp, r[1])


def _or_rewrite_fires(t):
    """does the real rewrite_filters change this predicate (built over the support atoms)?"""
    import dask_expr as dx
    from dask_expr._expr import Or, rewrite_filters

    df = dx.from_pandas(_data().reset_index(), npartitions=2, sort=False)  # has every column an atom may read
    e = eval_tree(t, df).expr
    return isinstance(e, Or) and rewrite_filters(e)._name != e._name


# --- parquet

PQ_ATOMS = {
    "a<2": lambda x: x["a"] < 2,
    "a>=2": lambda x: x["a"] >= 2,
    "c==2": lambda x: x["c"] == 2,
    "a!=2": lambda x: x["a"] != 2,
    "c!=2": lambda x: x["c"] != 2,
    "b<=2": lambda x: x["b"] <= 2,
    "b!=3": lambda x: x["b"] != 3,
    "b_isin": lambda x: x["b"].isin([1, 3]),
    "c_isna": lambda x: x["c"].isna(),
    "a<c": lambda x: x["a"] < x["c"],
}
PQ_NAMES = list(PQ_ATOMS)
PQ_NULL_COLS = {"a", "c"}


def run_parquet(case):
    """arrow-filesystem read_parquet(...)[pred] vs the same predicate evaluated in memory on the loaded frame."""
    import dask_expr as dx

    pdf = _data().reset_index(drop=True)
    t = _tuple_tree(case["tree"])
    with tempfile.TemporaryDirectory() as tmp:
        d = os.path.join(tmp, "t")
        os.makedirs(d)
        k = case.get("files", 2)
        step = -(-len(pdf) // k)
        for i in range(k):
            pdf.iloc[i * step : (i + 1) * step].to_parquet(os.path.join(d, f"part.{i}.parquet"))
        kw = {}
        if case.get("existing"):
            kw["filters"] = [("d", ">", 0)]
        r = dx.read_parquet(d, filesystem="arrow", **kw)
        mem = r.compute()
        exp = mem[eval_tree(t, mem, PQ_ATOMS, PQ_NAMES)]
        q = r[eval_tree(t, r, PQ_ATOMS, PQ_NAMES)]
        if case.get("project"):
            q = q[["a", "b"]]
            exp = exp[["a", "b"]]
        res = e2e.run_or_err(lambda: q.compute())
        if res[0] == "err":
            return f"raised {res[1]}: {res[2]}"
        if e2e.same(res[1], exp, sort_rows=False, drop_index=True):
            return None
        return _diff("rows differ", exp, res[1])


_SQUASH_PREDS = {
    "cumsum": lambda d: d.b.cumsum() > 5,
    "cummax": lambda d: d.b.cummax() > 1,
    "shift": lambda d: d.b.shift(1) > 1,
    "diff": lambda d: d.b.diff() < 0,
    "rowlocal": lambda d: d.b + d.a > 4,          # control: squashing IS sound here
    "reduction": lambda d: d.b > d.b.mean(),       # the case the code already guarded
}


def run_squash(case):
    """two consecutive filters; the outer predicate is computed from the FILTERED frame (D65)"""
    import numpy as np
    import pandas as pd

    import dask_expr as dx

    pdf = pd.DataFrame({"a": np.arange(20, dtype="int64"), "b": (np.arange(20, dtype="int64") * 3) % 7})
    df = dx.from_pandas(pdf, npartitions=case["npartitions"])
    inner = {"gt": lambda d: d.a > 3, "even": lambda d: d.a % 2 == 0}[case["inner"]]
    pred = _SQUASH_PREDS[case["outer"]]
    p2 = pdf[inner(pdf)]
    want = p2[pred(p2)]
    d2 = df[inner(df)]
    q = d2[pred(d2)]
    try:
        got = q.compute()
    except NotImplementedError as ex:
        if "overlapping window" in str(ex):
            return None  # documented refusal
        raise
    if got.a.tolist() != want.a.tolist():
        return f"df[{case['inner']}][{case['outer']}-predicate of the filtered frame]: rows {got.a.tolist()} instead of {want.a.tolist()}"
    return None


_ORDER_OPS = {
    # operators that reorder rows with a fully determined result order (a is unique)
    "sort_ba": (lambda d: d.sort_values(["b", "a"]), lambda p: p.sort_values(["b", "a"])),
    "sort_a_desc": (lambda d: d.sort_values("a", ascending=False), lambda p: p.sort_values("a", ascending=False)),
    "set_index_a": (lambda d: d.set_index("a", drop=False), lambda p: p.set_index("a", drop=False).sort_index()),  # dask sorts
}


def run_order(case):
    """x = reorder(df); x[pred(x)] where the predicate depends on the row order of x (D83): a filter may cross a sort,
    set_index or shuffle only if its predicate is the same for a row wherever the row stands"""
    import numpy as np
    import pandas as pd

    import dask_expr as dx

    a = (np.arange(20, dtype="int64") * 7) % 20
    pdf = pd.DataFrame({"a": a, "b": (a * 3) % 7})
    df = dx.from_pandas(pdf, npartitions=case["npartitions"])
    dfn, pfn = _ORDER_OPS[case["op"]]
    pred = _SQUASH_PREDS[case["outer"]]
    px = pfn(pdf)
    want = px[pred(px)]
    x = dfn(df)
    q = x[pred(x)]
    try:
        got = q.compute()
    except NotImplementedError as ex:
        if "overlapping window" in str(ex):
            return None  # documented refusal
        raise
    if got.a.tolist() != want.a.tolist():
        return f"x = df.{case['op']}; x[{case['outer']}-predicate of x]: rows {got.a.tolist()} instead of {want.a.tolist()}"
    return None


def run_case(case):
    kind = case["kind"]
    if kind == "squash":
        return run_squash(case)
    if kind == "order":
        return run_order(case)
    if kind == "cross":
        # `repeat`: DiskShuffle's row order inside a partition differs from build to build (uuid keys, D11), which
        # makes the one query whose result depends on it nondeterministic; repeat until the first failure
        for _ in range(case.get("repeat", 1)):
            msg = run_cross(case)
            if msg:
                return msg
        return None
    if kind == "merge":
        return run_merge(case)
    if kind == "parquet":
        return run_parquet(case)
    if kind == "operand":
        return run_operand(case)
    raise ValueError(kind)


def _sig(case):
    if case["kind"] == "squash":
        return {"kind": "squash", "outer": case["outer"]}
    if case["kind"] == "order":
        return {"kind": "order", "op": case["op"], "outer": case["outer"]}
    if case["kind"] == "cross":
        op = case["op"]
        sh = case.get("shared", "none")
        atoms_used = set(tree_atoms(_tuple_tree(case["tree"])))
        fi = atoms_used & set(FORMER_INDEX_ATOMS)
        mixed = bool(fi) and (len(atoms_used) > 1 or ATOM_NAMES.index("index<b+11") in fi)
        return {"kind": "cross", "op": "astype_int64_to_float64_above_2p53" if op == "astype_big" else
                "astype" if op.startswith("astype") else op, "shared": sh,
                "former_index": "mixed" if mixed else "only" if fi else "none",
                "or_rewrite": _or_rewrite_fires(_tuple_tree(case["tree"])),
                "filter_is_first_operand": sh not in ("other_consumer", "two_filters")}  # those put the filter under Concat
    if case["kind"] == "operand":
        pos = case["position"]
        return {"kind": "operand", "position": pos, "or_rewrite": _or_rewrite_fires(_tuple_tree(case["tree"])),
                "filter_is_first_operand": pos in ("merge_left", "binop_left")}
    if case["kind"] == "merge":
        import dask_expr as dx  # noqa: F401

        try:
            m, q, _ = build_merge_query(case)
            pred = q.expr.predicate
            from dask_expr._expr import And

            while isinstance(pred, And):
                pred = pred.left
            pcols = m.expr._predicate_columns(pred)
            side = _classify_pc(m.expr, pcols)
            lcoll, rcoll = _collisions(m.expr, pcols)
        except Exception:  # noqa: BLE001
            side, lcoll, rcoll = "?", False, False
        return {"kind": "merge", "how": case["how"], "side": side, "lcoll": lcoll, "rcoll": rcoll}
    names = [PQ_NAMES[i] for i in tree_atoms(_tuple_tree(case["tree"]))]
    ne_null = any("!=" in n and n[0] in PQ_NULL_COLS for n in names)
    return {"kind": "parquet", "atom": "ne" if ne_null else "other", "nulls": True}


def _pred_trees(ctx, natoms, n_small_all, n_sample, max_size=5):
    """all trees of size <= n_small_all plus a seeded sample of the sizes up to max_size"""
    memo = {}
    out = []
    for n in range(1, n_small_all + 1):
        out += trees_of_size(n, natoms, memo)
    for _ in range(n_sample):
        out.append(random_tree(ctx.rng, ctx.rng.randint(n_small_all + 1, max_size), natoms))
    return out


# minimal witnesses of every failure class met so far; always executed first, in both tiers (regression corpus)
CORPUS = [
    {"kind": "cross", "op": "astype_int", "tree": ["a", 9], "shared": "none"},                    # D8: a>0 below astype(int64)
    {"kind": "cross", "op": "astype_Int64", "tree": ["a", 3], "shared": "none"},                  # D8: c!=2 below astype(Int64)
    {"kind": "parquet", "tree": ["a", 3], "files": 1},                                             # D9: a != 2 pushed to the reader
    {"kind": "merge", "how": "left", "suffixes": ["_x", ""], "col": "b", "pred": "gt", "shape": "single"},   # wrong join side
    {"kind": "operand", "position": "merge_right", "tree": ["or", ["a", 5], ["a", 5]], "how": "inner"},    # OR rewrite, filter not operand 0
    {"kind": "operand", "position": "binop_right", "tree": ["or", ["a", 5], ["a", 5]], "how": "inner"},
    {"kind": "operand", "position": "concat_first", "tree": ["or", ["a", 5], ["a", 5]], "how": "inner"},
    {"kind": "cross", "op": "reset_index", "tree": ["and", ["a", 12], ["a", 9]], "shared": "none"},   # D29: former index & a column
    {"kind": "cross", "op": "series_reset_index", "tree": ["and", ["a", 12], ["a", 9]], "shared": "none"},   # same on Series.reset_index()
    {"kind": "cross", "op": "astype_big", "tree": ["a", 14], "shared": "none"},
    # narrowing casts must not be treated as value preserving (seeded mutant C03-m2)
    {"kind": "cross", "op": "astype_narrow", "tree": ["a", 16], "shared": "none"},                              # n == 1 after int32 wrap
    {"kind": "cross", "op": "astype_narrow", "tree": ["or", ["a", 15], ["a", 17]], "shared": "none"},           # x == f32(0.1) | n < 0
    {"kind": "cross", "op": "astype_narrow", "tree": ["and", ["a", 18], ["not", ["a", 6]]], "shared": "then_project"},   # int64 -> float64 above 2**53 (numpy "safe")
    # filter squashing through predicates that are not row-local (D65)
    {"kind": "squash", "inner": "gt", "outer": "cumsum", "npartitions": 3},
    {"kind": "squash", "inner": "even", "outer": "cummax", "npartitions": 3},
    {"kind": "squash", "inner": "even", "outer": "shift", "npartitions": 2},
    {"kind": "squash", "inner": "even", "outer": "diff", "npartitions": 2},
    {"kind": "squash", "inner": "gt", "outer": "reduction", "npartitions": 3},
    {"kind": "squash", "inner": "gt", "outer": "rowlocal", "npartitions": 3},
    # filters whose predicate depends on the row order, above operators that reorder rows (D83)
    {"kind": "order", "op": "sort_ba", "outer": "cumsum", "npartitions": 3},
    {"kind": "order", "op": "sort_a_desc", "outer": "cummax", "npartitions": 3},
    {"kind": "order", "op": "set_index_a", "outer": "cumsum", "npartitions": 3},
    {"kind": "order", "op": "sort_ba", "outer": "shift", "npartitions": 2},
    {"kind": "order", "op": "set_index_a", "outer": "diff", "npartitions": 2},
    {"kind": "order", "op": "sort_ba", "outer": "rowlocal", "npartitions": 3},
    {"kind": "order", "op": "sort_ba", "outer": "reduction", "npartitions": 3},
    # x = df.shuffle(disk); x[pred].index : Index(shuffle A) masked positionally by a predicate over shuffle B
    {"kind": "cross", "op": "shuffle_disk", "tree": ["a", 4], "shared": "then_index", "repeat": 40},
]


def _cases(ctx, broken):
    rng = ctx.rng
    cases = []
    ops = list(_ops())
    # every operator kind x every single atom (+ its negation), then sampled trees <= 5 nodes
    for op in ops:
        trees = _pred_trees(ctx, len(ATOM_NAMES), 2, 6 if ctx.quick else 150)
        if ctx.quick:
            keep = [t for t in trees if tree_size(t) == 1] + rng.sample([t for t in trees if tree_size(t) > 1], 8)
        else:
            keep = trees
        for t in keep:
            cases.append({"kind": "cross", "op": op, "tree": _jsonable_tree(t), "shared": "none"})
        for sh in SHARED[1:]:
            if sh == "then_index" and op == "shuffle_disk":
                continue  # nondeterministic on the current tree (see CORPUS: repeated there until it shows)
            for t in rng.sample(trees, 2 if ctx.quick else 25):
                cases.append({"kind": "cross", "op": op, "tree": _jsonable_tree(t), "shared": sh})
        if op in ("reset_index", "series_reset_index"):
            i1, i2 = FORMER_INDEX_ATOMS
            for t in [("a", i1), ("a", i2), ("and", ("a", i1), ("a", 9)), ("or", ("a", i1), ("a", 6)), ("not", ("a", i1)),
                      ("and", ("a", 9), ("a", i1)), ("and", ("a", i1), ("a", i2))]:
                cases.append({"kind": "cross", "op": op, "tree": _jsonable_tree(t), "shared": "none"})
    # the filter as first / non-first operand of a multi-input parent; predicates on which OR-factoring fires and not
    fact = [("or", ("and", ("a", 9), ("a", 5)), ("and", ("a", 9), ("a", 6))), ("or", ("a", 5), ("a", 5)),
            ("or", ("and", ("a", 0), ("a", 5)), ("a", 5)), ("or", ("a", 0), ("a", 5)), ("and", ("a", 9), ("or", ("a", 5), ("a", 6))),
            ("a", 3), ("not", ("a", 9))]
    for pos in POSITIONS:
        for t in fact + [random_tree(rng, rng.randint(3, 5), len(ATOM_NAMES)) for _ in range(1 if ctx.quick else 12)]:
            hows = ["inner"] if (ctx.quick or not pos.startswith("merge")) else ["inner", "left", "right", "outer"]
            for how in hows:
                cases.append({"kind": "operand", "position": pos, "tree": _jsonable_tree(t), "how": how})
    # joins
    mc = merge_configs(ctx)
    rng.shuffle(mc)
    singles = [c for c in mc if c["shape"] == "single"]
    others = [c for c in mc if c["shape"] != "single"]
    for c in (singles[:80] + others[:35]) if ctx.quick else mc:
        cases.append({"kind": "merge", **c})
    # parquet (arrow filesystem pushes filters)
    pt = _pred_trees(ctx, len(PQ_NAMES), 1, 14 if ctx.quick else 700)
    for t in pt:
        cases.append({"kind": "parquet", "tree": _jsonable_tree(t), "files": rng.choice([1, 2, 3]),
                      "existing": rng.random() < 0.25, "project": rng.random() < 0.25})
    rng.shuffle(cases)
    # steer: broken obligations / disagreeing inputs first
    steered = []
    for b in broken:
        inp = (b.get("first") or {}).get("input") or {}
        fam = b.get("family", "")
        if fam.startswith("category_conformance") and isinstance(inp, dict):
            cls = inp.get("cls", "")
            opmap = {"AsType": ["astype_int", "astype"], "ResetIndex": ["reset_index", "reset_index_drop"], "RenameAxis": ["rename_axis"],
                     "_DeepCopy": ["copy"], "Filter": ["filter"], "Repartition": ["repartition"], "Shuffle": ["shuffle", "shuffle_disk"],
                     "SortValues": ["sort_values"], "SetIndex": ["set_index"]}
            for op in opmap.get(cls, []):
                for i in range(len(ATOM_NAMES)):
                    steered.append({"kind": "cross", "op": op, "tree": ["a", i], "shared": "none"})
        elif fam.startswith("Merge.") and isinstance(inp, dict) and "how" in inp:
            cfg = {k: v for k, v in inp.items() if k != "fn"}
            steered.append({"kind": "merge", **cfg})
            for pn in MERGE_PREDS:
                steered.append({"kind": "merge", **{**cfg, "pred": pn, "shape": "single"}})
        elif fam.startswith("_DNF") or fam.startswith("pyarrow"):
            for i in range(len(PQ_NAMES)):
                steered.append({"kind": "parquet", "tree": ["a", i], "files": 2})
                steered.append({"kind": "parquet", "tree": ["not", ["a", i]], "files": 2})
        elif fam.startswith("rewrite_filters") and isinstance(inp, dict) and "tree" in inp:
            # run the disagreeing predicate shape for real, above operators a filter crosses
            t = _parse_sexpr(inp["tree"])
            if t is not None and max(tree_atoms(t)) < len(ATOM_NAMES):
                for op in ("copy", "reset_index_drop", "shuffle", "repartition"):
                    steered.append({"kind": "cross", "op": op, "tree": _jsonable_tree(t), "shared": "none"})
        elif b.get("kind") == "proof":
            for op in ops:
                for i in range(len(ATOM_NAMES)):
                    steered.append({"kind": "cross", "op": op, "tree": ["a", i], "shared": "none"})
    return [dict(c) for c in CORPUS] + steered + cases


def _parse_sexpr(s):
    toks = s.replace("(", " ( ").replace(")", " ) ").split()

    def rec(i):
        if toks[i] == "(":
            op = toks[i + 1]
            args = []
            i += 2
            while toks[i] != ")":
                a, i = rec(i)
                args.append(a)
            return (op, *args), i + 1
        if toks[i].startswith("a") and toks[i][1:].isdigit():
            return ("a", int(toks[i][1:])), i + 1
        raise ValueError(toks[i])

    try:
        t, j = rec(0)
        return t if j == len(toks) else None
    except Exception:  # noqa: BLE001
        return None


def support(ctx, broken):
    sup = Support()
    per_sig = {}
    for case in _cases(ctx, broken):
        try:
            msg = run_case(case)
        except Exception as ex:  # noqa: BLE001  (case not constructible, e.g. predicate on a dropped column)
            sup.count("skipped/" + case["kind"])
            continue
        sup.executed += 1
        sup.count(f"{case['kind']}/" + (case.get("op") or case.get("position") or case.get("how") or "arrow"))
        if len(sup.samples) < 3:
            sup.samples.append(case)
        if msg:
            sig = _sig(case)
            key = repr(sorted(sig.items()))
            per_sig[key] = per_sig.get(key, 0) + 1
            if per_sig[key] <= 3:  # keep a few witnesses per distinct signature, prefer small predicates
                sup.failures.append(Failure(sig=sig, case=case, detail=msg))
    sup.failures.sort(key=lambda fl: len(repr(fl.case)))
    sup.distribution["failing_signatures"] = {k: v for k, v in per_sig.items()}
    return sup


def replay(case):
    msg = run_case(case)
    return Failure(sig=_sig(case), case=case, detail=msg) if msg else None
