"""C12 — a shuffle is a permutation that co-locates equal keys consistently across frames."""
from __future__ import annotations

import ast
import inspect
import itertools
import math
import operator
import textwrap

import numpy as np
import pandas as pd

from harness import e2e
from harness.core import Family, Failure, Support, drive, first_diff
from harness.render import Names, b01, rfilter, rgraph, rkey

LEAN_MODULES = ["DxModel.Props.C12"]
GENERATED = []
TRUSTED = [
    "spec of dask.dataframe.shuffle.shuffle_group / shuffle_group_2 / shuffle_group_get / collect (Graph.lean; validated by family helper_specs)",
    "hash_object_dispatch: equal values (after the numeric cast) hash equally (validated by family partitioning_index)",
    "harness/render.py + Driver/Render.lean canonical text of graphs",
]
PARTIAL = [
    "row order inside an output partition is proven only up to permutation (disk shuffle order depends on write order)",
    "the hash function itself and the float stage arithmetic are not modelled; the arithmetic's result is checked against the theorem's hypothesis for n<=20000, k in 2..64",
]
EXPLANATION = (
    "Theorems: run(layer) = sem for SimpleShuffle/TaskShuffle(staged, regroup)/DiskShuffle for all n_in, n_out, "
    "max_branch, subsets; total/permutation/co-location corollaries. Tie: exact graph equality of every _layer() "
    "with the executable model over an enumerated parameter space, proven-hypothesis check of the stage arithmetic, "
    "helper conformance. Support: real shuffles on key-dense frames vs the permutation/co-location oracle."
)


# --------------------------------------------------------------------------- real layers


def _frame(nin):
    import dask_expr as dx

    pdf = pd.DataFrame({"x": np.arange(max(nin, 1) * 2), "_partitions": 0})
    parts = [pdf.iloc[2 * i : 2 * i + 2] for i in range(nin)]
    return dx.from_map(e2e._PartGetter(parts), list(range(nin)), meta=pdf.iloc[:0]).expr


def _special(params_ii):
    from dask.dataframe.shuffle import barrier, collect, shuffle_group_2, shuffle_group_get

    from dask_expr._expr import _concat
    from dask_expr._shuffle import DiskShuffle, SimpleShuffle

    def r_concat(t, names):
        return f"concat([{','.join(rkey(k, names) for k in t[1])}],ii={b01(t[2])})"

    def r_sg(t, names):
        _, key, filt, col, stage, k, n, ii, nfinal = t
        extra = "" if (col == "_partitions" and bool(ii) == params_ii) else f",col={col!r},ii={b01(ii)}"
        return f"shuffle_group({rkey(key, names)},f={rfilter(filt)},stage={stage},k={k},n={n},nfinal={nfinal}{extra})"

    def r_sg2(t, names):
        _, key, col, ii, nfinal = t
        extra = "" if (col == "_partitions" and bool(ii) == params_ii) else f",col={col!r},ii={b01(ii)}"
        return f"shuffle_group_2({rkey(key, names)},nfinal={nfinal}{extra})"

    def r_sgg(t, names):
        return f"shuffle_group_get({rkey(t[1], names)},{t[2]})"

    def r_dw(t, names):
        _, key, col, filt, p = t
        extra = "" if col == "_partitions" else f",col={col!r}"
        return f"disk_write({rkey(key, names)},f={rfilter(filt)}{extra})"

    def r_barrier(t, names):
        return f"barrier([{','.join(rkey(k, names) for k in t[1])}])"

    def r_collect(t, names):
        _, p, part, meta, btok = t
        return f"collect(part={part},{rkey(btok, names)})"

    return {
        _concat: r_concat,
        SimpleShuffle._shuffle_group: r_sg,
        DiskShuffle._shuffle_group: r_dw,
        shuffle_group_2: r_sg2,
        shuffle_group_get: r_sgg,
        barrier: r_barrier,
        collect: r_collect,
    }


def real_layer(kind, nin, nout, parts, ii, maxbranch):
    from dask_expr._shuffle import DiskShuffle, SimpleShuffle, TaskShuffle

    cls = {"simpleshuffle": SimpleShuffle, "taskshuffle": TaskShuffle, "diskshuffle": DiskShuffle}[kind]
    fr = _frame(nin)
    opts = {"max_branch": maxbranch} if maxbranch else None
    e = cls(fr, "_partitions", nout, ii, opts, parts)
    dsk = e._layer()
    names = Names(e._name, [fr._name])
    text = rgraph(_fix_partd(dsk), names, _special(bool(ii)))
    return e, dsk, text


def _fix_partd(dsk):
    # the partd task embeds a fresh file object; render it as the literal the model uses
    out = {}
    for k, v in dsk.items():
        if isinstance(k, tuple) and isinstance(k[0], str) and k[0].startswith("zpartd-"):
            out[k] = pd.DataFrame()
        else:
            out[k] = v
    return out


_STAGE_FN = None


def stage_arith(nin, maxbranch):
    """The (stages, nsplits) pair as computed by the *source text* of TaskShuffle._layer."""
    global _STAGE_FN
    if _STAGE_FN is None:
        from dask_expr._shuffle import TaskShuffle

        src = textwrap.dedent(inspect.getsource(TaskShuffle._layer))
        fn = ast.parse(src).body[0]
        keep = []
        for st in fn.body:
            if isinstance(st, ast.Assign) and any(isinstance(t, ast.Name) and t.id == "stages" for t in st.targets):
                keep.append(st)
            if isinstance(st, ast.If) and "nsplits" in ast.unparse(st) and "stages > 1" in ast.unparse(st.test):
                keep.append(st)
        if len(keep) != 2:
            raise RuntimeError("cannot locate the stage arithmetic in TaskShuffle._layer")
        code = "def f(npartitions_input, max_branch):\n" + textwrap.indent("\n".join(ast.unparse(s) for s in keep), "    ") + "\n    return stages, nsplits\n"
        ns = {"math": math}
        exec(code, ns)
        _STAGE_FN = ns["f"]
    return _STAGE_FN(nin, maxbranch)


def _req(kind, nin, nout, parts, filtered, ii, mb, stages, nsplits):
    ps = ",".join(map(str, parts)) if parts else "-"
    return (f"layer {kind} nin={nin} nout={nout} parts={ps} filtered={b01(filtered)} ii={b01(ii)} "
            f"maxbranch={mb} stages={stages} nsplits={nsplits}")


def _param_space(ctx, nmax, kinds):
    rng = ctx.rng
    cases = []
    for kind in kinds:
        for nin in range(1, nmax + 1):
            for nout in range(1, nmax + 1):
                mbs = [None] if kind != "taskshuffle" else [2, 3, 4, 5]
                for mb in mbs:
                    subsets = [None]
                    allp = list(range(nout))
                    # all subsets of size <= 2 are too many at full size: sample deterministically per tier
                    cands = [list(c) for r in (1, 2, 3) for c in itertools.combinations(allp, r)]
                    cands += [list(reversed(c)) for c in cands if len(c) > 1][:6]
                    if nout >= 2:
                        cands.append([0, 0])
                    rng.shuffle(cands)
                    subsets += cands[: (2 if ctx.quick else 8)]
                    for parts in subsets:
                        ii = rng.random() < 0.3
                        cases.append((kind, nin, nout, parts, ii, mb))
    return cases


def fam_graphs(ctx):
    """T2: exact equality of the dict returned by _layer() with the model's listing."""
    f = Family("graph_equality[Simple/Task/DiskShuffle._layer]")
    nmax = 7 if ctx.quick else 12
    cases = _param_space(ctx, nmax, ["simpleshuffle", "taskshuffle", "diskshuffle"])
    if ctx.quick:
        ctx.rng.shuffle(cases)
        # keep every staged case region represented: first all corpus-like small ones, then random
        cases = cases[:1500]
    reqs, code, inputs, nontriv = [], [], [], []
    for kind, nin, nout, parts, ii, mb in cases:
        try:
            e, dsk, text = real_layer(kind, nin, nout, parts, ii, mb)
        except Exception as ex:  # noqa: BLE001
            text = f"ERR {type(ex).__name__}"
            e = None
        filtered = parts is not None
        eff_parts = parts if parts is not None else list(range(nout))
        mbv = mb or 32
        stages, nsplits = 1, nin
        staged = kind == "taskshuffle" and not (len(eff_parts) <= mbv or nin <= mbv)
        if staged:
            stages, nsplits = stage_arith(nin, mbv)
        reqs.append(_req(kind, nin, nout, eff_parts, filtered, ii, mbv, stages, nsplits))
        code.append("G " + text)
        inputs.append({"kind": kind, "nin": nin, "nout": nout, "parts": parts, "ii": ii, "max_branch": mb,
                       "stages": stages, "nsplits": nsplits})
        nontriv.append(staged or filtered or kind == "diskshuffle")
    model = drive(reqs)
    f.compare(inputs, code, model, nontriv)
    for d in f.disagreements:
        if d:
            d["diff"] = first_diff(d["code"], d["model"])
    f.note = f"n_in,n_out<= {nmax}, max_branch 2..5, subsets incl. reordered/repeated; staged cases={sum(1 for i in inputs if i['stages']>1)}"
    return f


def fam_stage_arith(ctx):
    """T3: the float expressions' result satisfies the hypothesis of C12_staged (checked by the Lean function)."""
    f = Family("stage_arithmetic_hypothesis[TaskShuffle._layer ceil/log]")
    nmax = 3000 if ctx.quick else 20000
    ks = list(range(2, 65)) if not ctx.quick else [2, 3, 4, 5, 7, 8, 16, 31, 32, 33, 64]
    reqs, inputs = [], []
    for k in ks:
        for n in range(k + 1, nmax + 1, 1 if not ctx.quick else 3):
            st, ns = stage_arith(n, k)
            reqs.append(f"check stagearith nin={n} stages={st} nsplits={ns}")
            inputs.append((n, k, st, ns))
    model = drive(reqs)
    f.compare(inputs, ["OK"] * len(reqs), model, [i[2] > 1 for i in inputs])
    f.exhaustive = not ctx.quick
    f.note = f"n<= {nmax}, k in {ks[0]}..{ks[-1]}"
    return f


def fam_helpers(ctx):
    """T4: dask's shuffle_group / shuffle_group_2+get agree with their Lean specification."""
    from dask.dataframe.shuffle import shuffle_group, shuffle_group_2, shuffle_group_get

    f = Family("helper_specs[shuffle_group, shuffle_group_2/get]")
    rng = ctx.rng
    reqs, code, inputs = [], [], []
    for _ in range(150 if ctx.quick else 1500):
        n = rng.randint(0, 9)
        nin = rng.randint(1, 9)
        k = rng.randint(1, 4)
        stage = rng.randint(0, 2)
        nfinal = rng.randint(nin, 12)
        tg = [rng.randrange(nfinal) for _ in range(n)]
        df = pd.DataFrame({"_partitions": np.array(tg, dtype="int64"), "pay": np.arange(n)})
        g = shuffle_group(df, "_partitions", stage, k, nin, False, nfinal)
        code.append(";".join(f"{c}:[{','.join(str(v) for v in g[c]['pay'].tolist())}]" for c in sorted(g)))
        reqs.append(f"spec shufflegroup tgts={','.join(map(str, tg)) or '-'} stage={stage} k={k} nin={nin}")
        inputs.append(("shuffle_group", tg, stage, k, nin))
        i = rng.randrange(nfinal)
        got = shuffle_group_get(shuffle_group_2(df, "_partitions", False, nfinal), i)
        code.append("[" + ",".join(str(v) for v in got["pay"].tolist()) + "]")
        reqs.append(f"spec group2get tgts={','.join(map(str, tg)) or '-'} i={i}")
        inputs.append(("group2get", tg, i))
    model = drive(reqs)
    f.compare(inputs, code, model)
    return f


def fam_partitioning_index(ctx):
    """T4: one key value -> one partition number, whatever the (numeric) dtype of the frame it sits in."""
    import dask_expr as dx
    from dask_expr._shuffle import AssignPartitioningIndex, RearrangeByColumn

    f = Family("cross_frame_partition_number[RearrangeByColumn cast + partitioning_index]")
    vals = [0, 1, 2, 3, 5, 8, 13, 21, -4, 100]
    frames = {
        "int64": pd.DataFrame({"k": np.array(vals, dtype="int64")}),
        "int32": pd.DataFrame({"k": np.array(vals, dtype="int32")}),
        "float64": pd.DataFrame({"k": np.array(vals, dtype="float64")}),
        "Int64": pd.DataFrame({"k": pd.array(vals, dtype="Int64")}),
        "float32": pd.DataFrame({"k": np.array(vals, dtype="float32")}),
    }
    # the same key values held as a NAMED INDEX (shuffle on the index name: the index is copied into a
    # helper column first; the float64 cast has to cover that column too — seeded change C12-m4)
    for dt in ("int64", "int32", "float64", "float32"):
        frames["index:" + dt] = pd.DataFrame({"pay": np.arange(len(vals))}, index=pd.Index(np.array(vals, dtype=dt), name="k"))
    for nout in ([3, 7] if ctx.quick else [2, 3, 4, 5, 7, 8, 13]):
        ref = None
        for dt, pdf in frames.items():
            df = dx.from_pandas(pdf, npartitions=2, sort=False)
            low = RearrangeByColumn(df.expr, ["k"], nout, False, "tasks", None, None)._lower()
            api = list(low.find_operations(AssignPartitioningIndex))[0]
            out = dx.new_collection(api).compute()
            keys = out["k"] if "k" in out.columns else out.index
            got = sorted({(int(k), int(p)) for k, p in zip(keys, out["_partitions"])})
            if ref is None:
                ref = got
            f.compare([{"dtype": dt, "nout": nout}], [got], [ref])
    f.note = "model side = the partition numbers of the int64 frame (the theorem only needs them to be one function of the key)"
    return f


def fam_key_column_order(ctx):
    """T4: the frame that is hashed holds the key columns in the order of the KEY LIST (the hash of a row
    depends on column order), whatever the physical column order of the frame."""
    from dask_expr._shuffle import _select_columns_or_index

    f = Family("key_columns_in_key_order[_select_columns_or_index]")
    cols = ["a", "b", "c", "d"]
    inputs, code, model = [], [], []
    for phys in itertools.permutations(cols, 4 if not ctx.quick else 3):
        phys = list(phys) + [c for c in cols if c not in phys]
        df = pd.DataFrame({c: [1, 2] for c in phys})
        for r in (1, 2, 3):
            for keys in itertools.permutations(cols[:3], r):
                got = _select_columns_or_index(df, list(keys))
                code.append(",".join(map(str, got.columns)))
                model.append(",".join(keys))
                inputs.append({"physical": phys, "keys": list(keys)})
    f.compare(inputs, code, model, [len(i["keys"]) > 1 for i in inputs])
    f.note = "model side = the key list itself: C12_cross_frame needs the partition number to be one function of the key TUPLE in key order"
    return f


def families(ctx):
    return [fam_graphs, fam_stage_arith, fam_helpers, fam_partitioning_index, fam_key_column_order]


# --------------------------------------------------------------------------- end-to-end support / search


def _key_frames():
    n = 40
    base = pd.DataFrame(
        {
            "ki": np.arange(n, dtype="int64") % 13,
            "kf": pd.array([None if i % 11 == 0 else float(i % 13) for i in range(n)], dtype="float64"),
            "ks": pd.array([None if i % 17 == 0 else "s%d" % (i % 7) for i in range(n)], dtype="object"),
            "kc": pd.Categorical(["c%d" % (i % 5) for i in range(n)]),
            "pay": np.arange(n, dtype="int64"),
        },
        index=pd.Index(np.arange(n, dtype="int64") % 9, name="ix"),
    )
    return base


def _shuffle_case(case):
    """Execute one real shuffle; return None when the property holds, else a description."""
    import dask_expr as dx

    pdf = _key_frames()
    nin, nout, on, method, mb, ii, parts = (case[k] for k in ("nin", "nout", "on", "method", "max_branch", "ii", "parts"))
    df = dx.from_pandas(pdf, npartitions=nin, sort=False)
    if df.npartitions != nin:
        return None
    kw = {}
    if mb:
        kw["max_branch"] = mb
    if on == "__index__":
        s = df.shuffle(on_index=True, npartitions=nout, shuffle_method=method, ignore_index=ii, **kw)
    else:
        s = df.shuffle(on, npartitions=nout, shuffle_method=method, ignore_index=ii, **kw)
    r = e2e.run_or_err(lambda: e2e.compute_partitions(s))
    if r[0] == "err":
        return f"shuffle raised {r[1]}: {r[2]}"
    full = r[1]
    if len(full) != nout:
        return f"{len(full)} partitions computed, npartitions_out={nout}"
    allrows = pd.concat(full)
    if sorted(allrows["pay"].tolist()) != pdf["pay"].tolist():
        return f"not a permutation: pay values {sorted(allrows['pay'].tolist())[:20]}…"
    if not ii:
        # index travels with the row
        m = dict(zip(pdf["pay"], pdf.index))
        if any(m[p] != i for p, i in zip(allrows["pay"], allrows.index)):
            return "index label no longer attached to its row"
    # co-location
    keycol = None if on == "__index__" else on
    where = {}
    for pi, part in enumerate(full):
        keys = part.index if keycol is None else part[keycol]
        for kv in keys:
            kvc = e2e._cv(kv)
            if where.setdefault(kvc, pi) != pi:
                return f"key {kvc!r} found in partitions {where[kvc]} and {pi}"
    if parts is not None:
        r2 = e2e.run_or_err(lambda: e2e.compute_partitions(s.partitions[parts]))
        if r2[0] == "err":
            return f"partitions[{parts}] raised {r2[1]}: {r2[2]}"
        if len(r2[1]) != len(parts):
            return f"partitions[{parts}] gave {len(r2[1])} partitions"
        for got, p in zip(r2[1], parts):
            if not e2e.same(got, full[p], sort_rows=True, drop_index=ii):
                return f"partitions[{parts}]: output {p} differs from partition {p} of the full shuffle"
    return None


def _cross_frame_case(case):
    """Same key values held as int64 / float64 / Int64 in different frames land in equal partition numbers."""
    import dask_expr as dx

    nout, method, mb = case["nout"], case["method"], case["max_branch"]
    vals = np.arange(30) % 11
    where = {}
    for dt in ("int64", "float64", "int32"):
        pdf = pd.DataFrame({"k": vals.astype(dt), "pay": np.arange(30)})
        df = dx.from_pandas(pdf, npartitions=case["nin"], sort=False)
        kw = {"max_branch": mb} if mb else {}
        s = df.shuffle("k", npartitions=nout, shuffle_method=method, **kw)
        parts = e2e.compute_partitions(s)
        for pi, part in enumerate(parts):
            for kv in part["k"]:
                kvc = int(kv)
                if where.setdefault(kvc, pi) != pi:
                    return f"key {kvc} is in partition {where[kvc]} in one frame and {pi} in the {dt} frame"
    # … and held as a named index that is shuffled by its name
    for dt in ("int64", "float64"):
        pdf = pd.DataFrame({"pay": np.arange(30)}, index=pd.Index(vals.astype(dt), name="k"))
        df = dx.from_pandas(pdf, npartitions=case["nin"], sort=False)
        kw = {"max_branch": mb} if mb else {}
        s = df.shuffle("k", npartitions=nout, shuffle_method=method, **kw)
        parts = e2e.compute_partitions(s)
        for pi, part in enumerate(parts):
            for kv in part.index:
                kvc = int(kv)
                if where.setdefault(kvc, pi) != pi:
                    return f"key {kvc} is in partition {where[kvc]} in one frame and {pi} in the frame indexed by {dt} k"
    return None


def _cross_multi_case(case):
    """Composite keys given positionally (left_on=[a,b], right_on=[y,x]) land in equal partition numbers
    even when the right frame stores its key columns in the other physical order."""
    import dask_expr as dx

    n = 36
    L = pd.DataFrame({"a": np.arange(n) % 5, "b": (np.arange(n) * 7) % 4, "pay": np.arange(n)})
    R = pd.DataFrame({"x": (np.arange(n) * 7) % 4, "y": np.arange(n) % 5, "pay": np.arange(n)})  # physical order x, y
    kw = {"max_branch": case["max_branch"]} if case["max_branch"] else {}
    sl = dx.from_pandas(L, npartitions=case["nin"], sort=False).shuffle(["a", "b"], npartitions=case["nout"], shuffle_method=case["method"], **kw)
    sr = dx.from_pandas(R, npartitions=case["nin"], sort=False).shuffle(["y", "x"], npartitions=case["nout"], shuffle_method=case["method"], **kw)
    where = {}
    for pi, part in enumerate(e2e.compute_partitions(sl)):
        for a, b in zip(part.a, part.b):
            where[(int(a), int(b))] = pi
    for pi, part in enumerate(e2e.compute_partitions(sr)):
        for y, x in zip(part.y, part.x):
            if where.get((int(y), int(x)), pi) != pi:
                return f"key {(int(y), int(x))} is in partition {where[(int(y), int(x))]} of the left frame but in partition {pi} of the right frame"
    m = dx.from_pandas(L, npartitions=case["nin"], sort=False).merge(
        dx.from_pandas(R, npartitions=case["nin"], sort=False), left_on=["a", "b"], right_on=["y", "x"], how="inner",
        shuffle_method=case["method"], broadcast=False).compute()
    want = L.merge(R, left_on=["a", "b"], right_on=["y", "x"], how="inner")
    if len(m) != len(want):
        return f"hash join on composite keys returned {len(m)} rows, pandas {len(want)}"
    return None


def _cases(ctx, broken):
    rng = ctx.rng
    cases = [{"kind": "cross_multi", "nin": 4, "nout": 5, "method": "tasks", "max_branch": None},
             {"kind": "cross_multi", "nin": 6, "nout": 6, "method": "tasks", "max_branch": 2},
             {"kind": "cross_multi", "nin": 3, "nout": 4, "method": "disk", "max_branch": None}]
    grid_n = [1, 2, 3, 5, 6] if ctx.quick else [1, 2, 3, 4, 5, 6, 7, 9]
    for nin in grid_n:
        for nout in grid_n:
            for method, mbs in (("tasks", [None, 2, 3]), ("disk", [None])):
                for mb in mbs:
                    for on in ("ki", "kf", "ks", "kc", "__index__"):
                        ii = False
                        allp = list(range(nout))
                        parts = None
                        if nout >= 2:
                            parts = rng.choice([None, [nout - 1], allp[1:], allp[::-1][:2], [0, nout - 1]])
                        cases.append({"kind": "shuffle", "nin": nin, "nout": nout, "on": on, "method": method,
                                      "max_branch": mb, "ii": ii, "parts": parts})
    for nin in (2, 5):
        for nout in (3, 5, 8):
            for method, mb in (("tasks", None), ("tasks", 2), ("disk", None)):
                cases.append({"kind": "cross", "nin": nin, "nout": nout, "method": method, "max_branch": mb})
    # ignore_index variants
    for nin, nout, mb in ((5, 5, 2), (3, 6, 2), (4, 2, None)):
        cases.append({"kind": "shuffle", "nin": nin, "nout": nout, "on": "ki", "method": "tasks", "max_branch": mb,
                      "ii": True, "parts": [1] if nout > 1 else None})
    # steer towards broken correspondences: replay the disagreeing layer parameters as real shuffles
    steered = []
    for b in broken:
        inp = (b.get("first") or {}).get("input")
        if isinstance(inp, dict) and "nin" in inp and "nout" in inp:
            for on in ("ki", "ks"):
                steered.append({"kind": "shuffle", "nin": inp["nin"], "nout": inp["nout"], "on": on,
                                "method": "disk" if inp.get("kind") == "diskshuffle" else "tasks",
                                "max_branch": inp.get("max_branch"), "ii": bool(inp.get("ii")), "parts": inp.get("parts")})
    head, cases = cases[:3], cases[3:]
    rng.shuffle(cases)
    if ctx.quick and not broken:
        cases = cases[:140]
    return steered + head + cases


def run_case(case):
    if case["kind"] == "cross_multi":
        return _cross_multi_case(case)
    if case["kind"] == "cross":
        return _cross_frame_case(case)
    return _shuffle_case(case)


def support(ctx, broken):
    sup = Support()
    for case in _cases(ctx, broken):
        msg = run_case(case)
        sup.executed += 1
        sup.count(f"{case['kind']}/{case['method']}/mb={case['max_branch']}")
        if len(sup.samples) < 3:
            sup.samples.append(case)
        if msg:
            sup.failures.append(Failure(sig={"kind": case["kind"], "method": case["method"]}, case=case, detail=msg))
            if len(sup.failures) >= 5:
                break
    return sup


def replay(case):
    msg = run_case(case)
    return Failure(sig={}, case=case, detail=msg) if msg else None
