"""C07 — declared schema matches the computed data."""
from __future__ import annotations

import numpy as np
import pandas as pd

from harness import e2e, plans, programs
from harness.core import Failure, Family, Support, drive

LEAN_MODULES = ["DxModel.Props.C07"]
GENERATED = []
TRUSTED = [
    "pandas' own behaviour at schema level — the primitives of DxModel/Meta.lean part 2 (getitem, rename, reset_index / set_index labels, "
    "merge suffixes, concat union / intersection of labels and index names, groupby keys -> index levels, value_counts names, the "
    "dtype-kind table `aggKind`/`Kind.join`/`Kind.na`): not proven, tied on every run to what pandas does on the stand-ins (`_meta`) and on "
    "real partitions by the families decl_nodes / decl_random / partitions / reduction_kinds",
    "meta_nonempty: which stand-in indexes align (concat axis=1 is modelled only for inputs with one index class)",
    "corners where pandas itself is order- or value-dependent are outside the tie (the translator makes such nodes opaque sources): bool "
    "columns stacked with numeric ones by a row-wise concat (int+bool -> int, float+bool -> float, bool+float -> object), merge keys of "
    "different kinds (pandas coerces them), any()/all() over object-kind columns (str columns refuse, genuine object columns do not), "
    "non-string or duplicate labels; a scalar reduced from an object column is compared by container only",
    "the column rules of Dx.Cols used by `pushdown` are tied to the real `_simplify_up` methods by C04's families; here only the "
    "resulting `_meta` of every node of the really optimized expression is compared (family optimized_nodes)",
]
PARTIAL = [
    "C07_tree_sound_partial holds under `guardT`: no user column `_partitions` / duplicate labels in front of a shuffle (D88 open), numeric "
    "columns under mean (D90 open: datetime mean is declared but cannot be computed), no column-less input and equal index kinds in a "
    "row-wise Concat, `.index` only of frames/series; the guards are evaluated on every instance of the partitions family",
    "push-down theorems: Assign and the frame/series reductions are not covered; groupby not for `mean` / scalar selections; rename needs "
    "a unique source per requested label; suffix needs a non-empty suffix (C04); merge needs KeysDoNotCollide (C04/N1); concat only row-wise "
    "(axis=1 is open finding D35, kept as C07_push_concat_axis1_counterexample)",
    "dtype kinds: modelled as int/float/bool/object/datetime (str folded into object, categoricals / timedeltas / nullable extension "
    "dtypes outside); the theorems are equalities in the absence of missing-value promotion, `Kind.promotes`/`SchPromotes` is the tolerated "
    "relation (C07_promotion_frame) and is applied by the harness when comparing computed partitions; value-dependent inference on empty "
    "partitions is tolerated by the harness only",
    "thorough tier: the end-to-end support loop runs 1000 seeded programs x 5 layouts (was 2500) so that the tier, together with the "
    "~3 min of the new families, stays within 15 min; the quick tier is unchanged (must-run list + 30 seeded programs x 2 layouts)",
    "operators outside the model (user functions, rolling/cumulative, binary arithmetic, astype, categorical/str/dt accessors, index "
    "merges, multi-function agg specs, split_out>1 shuffle reductions, concat of inputs with different numbers of index levels) are opaque "
    "sources in the trees and are covered only by the node-by-node end-to-end comparison of every vetted plan",
]
EXPLANATION = (
    "Model (DxModel/Meta.lean): schemas = container kind, labels+dtype kinds in order, series name, index level names+kinds; for 22 operator "
    "classes the declared-schema function (`_meta` transliterated) and the per-partition task pipeline (chunk/combine/aggregate trees of any "
    "shape, shuffle helper column, merge_chunk(result_meta), StackPartition pass-through-or-restack, Mean = sum/count). Theorems: per-operator "
    "agreement lemmas and C07_tree_sound_partial (every computed partition of every guarded expression tree has exactly the declared schema, "
    "by induction over trees), run-time-shape independence of the declaration, and for the projection push-down of Dx.Cols applied to trees "
    "(keep/Filter, rename, add_prefix/suffix, set_index, groupby, reset_index, merge, row-wise concat) that the rewritten tree declares the same "
    "schema. Counterexample theorems for the guards that the real code violates (D88, D90, D35). Tie: every node of enumerated and "
    "seeded-random queries built with the public API is translated from the REAL expression (class + operands) into a model tree and its real "
    "`_meta` compared with the model's declaration; the same for every node of the really optimized expression; computed partitions of the "
    "lowered unoptimized plan are compared with the model's per-partition schema up to the promotion relation; the dtype-kind table is "
    "compared with real reductions. Support: for every node of every plan stage of the vetted programs x layouts (incl. empty partitions): "
    "container kind, labels and order, series/index names and dtype kinds of `_meta` equal those of the computed node and of each computed "
    "partition; the optimised plan declares the same schema as the query; regression cases for D80/D84/D85/D89/D96/D99 and the open "
    "findings D35/D43/D88/D90; a disagreeing input of a correspondence family is re-executed end to end (declared vs computed partitions)."
)


# --------------------------------------------------------------------------- T2: labels of operator chains


def _apply(df, op):
    k = op[0]
    if k == "rename":
        return df.rename(columns=dict(op[1]))
    if k == "prefix":
        return df.add_prefix(op[1])
    if k == "suffix":
        return df.add_suffix(op[1])
    if k == "proj":
        return df[list(op[1])]
    if k == "assign":
        return df.assign(**{op[1]: 1})
    if k == "drop":
        return df.drop(columns=list(op[1]))
    if k == "filter":
        return df[df[df.columns[0]] >= 0]
    raise ValueError(k)


def _render(op):
    k = op[0]
    if k == "rename":
        return "rename:" + ",".join(f"{a}>{b}" for a, b in op[1])
    if k in ("prefix", "suffix", "assign"):
        return f"{k}:{op[1]}"
    if k in ("proj", "drop"):
        return f"{k}:" + (",".join(op[1]) or "-")
    return "filter"


def fam_labels(ctx):
    import dask_expr as dx

    f = Family("declared_labels[_meta.columns of rename/prefix/suffix/projection/assign/drop/filter chains]")
    rng = ctx.rng
    pdf = pd.DataFrame({"a": [1, 2, 3, 4], "b": [1, 2, 3, 4], "c": [5, 6, 7, 8], "d": [0, 0, 1, 1]})
    df = dx.from_pandas(pdf, npartitions=2)
    reqs, code, inputs = [], [], []
    for _ in range(250 if ctx.quick else 3000):
        cur = list(pdf.columns)
        q, ops = df, []
        for _ in range(rng.randint(1, 4)):
            kind = rng.choice(["rename", "prefix", "suffix", "proj", "assign", "drop", "filter"])
            if kind == "rename":
                src = rng.sample(cur, k=min(len(cur), rng.randint(1, 2)))
                m = [(s, s.upper() + "r") for s in src if s.upper() + "r" not in cur]
                if rng.random() < 0.3:
                    m.append(("zz_absent", "q"))
                if not m:
                    continue
                op = ("rename", m)
                nxt = [dict(m).get(c, c) for c in cur]
            elif kind == "prefix":
                op = ("prefix", rng.choice(["p_", "x"]))
                nxt = [op[1] + c for c in cur]
            elif kind == "suffix":
                op = ("suffix", rng.choice(["_s", "y"]))
                nxt = [c + op[1] for c in cur]
            elif kind == "proj":
                sel = rng.sample(cur, k=rng.randint(1, len(cur)))
                op = ("proj", sel)
                nxt = sel
            elif kind == "assign":
                name = rng.choice(["z", cur[0]])
                op = ("assign", name)
                nxt = cur if name in cur else cur + [name]
            elif kind == "drop":
                if len(cur) < 2:
                    continue
                sel = rng.sample(cur, k=1)
                op = ("drop", sel)
                nxt = [c for c in cur if c not in sel]
            else:
                op = ("filter",)
                nxt = cur
            if len(set(nxt)) != len(nxt):
                continue
            try:
                q = _apply(q, op)
            except Exception:  # noqa: BLE001
                break
            ops.append(op)
            cur = nxt
        if not ops:
            continue
        for form, e in (("declared", q), ("optimized", q.optimize())):
            code.append(",".join(map(str, e._meta.columns)))
            reqs.append("schema chain labels=a,b,c,d ops=" + ";".join(_render(o) for o in ops))
            inputs.append({"ops": [_render(o) for o in ops], "form": form})
    f.compare(inputs, code, drive(reqs))
    return f


# --------------------------------------------------------------------------- T2: `_meta` of real expressions vs the tree model


def _build(thunk):
    """-> collection or None when the real API refuses the query (pandas errors surface at construction)"""
    try:
        q = thunk()
    except Exception:  # noqa: BLE001
        return None
    return q if hasattr(q, "expr") else None


def _node_requests(label, expr, reqs, code, inputs, dist, seen_trees):
    """one `schema decl` request per translatable node of `expr` that has a modelled operator at its root"""
    from harness.props import c07_meta as cm

    seen = set()
    for nd in expr.walk():
        if nd._name in seen:
            continue
        seen.add(nd._name)
        tr = cm.to_tree(nd)
        if "/" not in tr or tr in seen_trees:
            continue
        seen_trees.add(tr)
        try:
            m = cm.render_sch(nd._meta)
        except Exception:  # noqa: BLE001
            m = "ERR"
        reqs.append("schema decl t=" + tr)
        code.append(m)
        inputs.append({"query": label, "node": type(nd).__name__, "tree": tr})
        k = cm.op_class(tr)
        dist[k] = dist.get(k, 0) + 1


def _dist_note(dist, extra=""):
    return extra + "nodes per operator class: " + ", ".join(f"{k}={v}" for k, v in sorted(dist.items()))


def fam_decl_nodes(ctx):
    """enumerated one/two-operator instances of every modelled class over the frame pool"""
    from harness.props import c07_meta as cm

    f = Family("decl_nodes[_meta of every node of enumerated queries per operator class (real classes, public API) vs Meta.declT]")
    qs = cm.enumerated_queries()
    if ctx.quick:
        idx = list(range(len(qs)))
        ctx.rng.shuffle(idx)
        qs = [qs[i] for i in sorted(idx[:1100])]
    reqs, code, inputs, dist, seen = [], [], [], {}, set()
    refused = 0
    for label, thunk in qs:
        q = _build(thunk)
        if q is None:
            refused += 1
            continue
        _node_requests(label, q.expr, reqs, code, inputs, dist, seen)
    f.compare(inputs, code, drive(reqs))
    f.exhaustive = not ctx.quick
    f.note = _dist_note(dist, f"{len(qs)} queries ({refused} refused by pandas/dask at construction); ")
    return f


def fam_decl_random(ctx):
    """seeded-random compositions (depth 2-5) of the modelled operators"""
    from harness.props import c07_meta as cm

    f = Family("decl_random[_meta of every node of seeded-random operator compositions vs Meta.declT]")
    reqs, code, inputs, dist, seen = [], [], [], {}, set()
    n, built = (260 if ctx.quick else 4000), 0
    for _ in range(n):
        r = cm.random_query(ctx.rng, ctx.rng.randint(2, 5))
        if r is None:
            continue
        built += 1
        _node_requests(r[0], r[1].expr, reqs, code, inputs, dist, seen)
    f.compare(inputs, code, drive(reqs))
    f.note = _dist_note(dist, f"{built}/{n} random compositions accepted by the real API; ")
    return f


def _projected(ctx, q):
    """a column selection on top of a frame query (what makes the push-down rules fire)"""
    m = q._meta
    if not isinstance(m, pd.DataFrame) or len(m.columns) < 2 or not all(isinstance(c, str) for c in m.columns):
        return None
    cols = list(m.columns)
    sel = ctx.rng.sample(cols, k=ctx.rng.randint(1, len(cols) - 1))
    try:
        return q[sel] if (len(sel) > 1 or ctx.rng.random() < 0.6) else q[sel[0]]
    except Exception:  # noqa: BLE001
        return None


def fam_optimized_nodes(ctx):
    """every node of the REALLY optimized expression (projection push-down applied by the real rules), and the model's
    own push-down of the root"""
    from dask_expr._expr import optimize_until

    from harness.props import c07_meta as cm

    f = Family("optimized_nodes[_meta of every node of the really simplified expression vs Meta.declT; Meta.pushdown keeps the root's declared schema]")
    qs = cm.enumerated_queries()
    idx = list(range(len(qs)))
    ctx.rng.shuffle(idx)
    qs = [qs[i] for i in sorted(idx[: (500 if ctx.quick else len(qs))])]
    rnd = []
    for _ in range(120 if ctx.quick else 2500):
        r = cm.random_query(ctx.rng, ctx.rng.randint(1, 4))
        if r is not None:
            rnd.append(r)
    reqs, code, inputs, dist, seen = [], [], [], {}, set()
    pushes, fired = 0, 0
    push_reqs, push_inputs, push_code = [], [], []
    for label, q in [(lb, _build(th)) for lb, th in qs] + rnd:
        if q is None:
            continue
        q2 = _projected(ctx, q)
        if q2 is None:
            continue
        try:
            opt = optimize_until(q2.expr, "simplified-logical")
        except Exception:  # noqa: BLE001
            continue  # optimiser failures belong to C01 (and to this check's support search)
        _node_requests(label + "[sel]", opt, reqs, code, inputs, dist, seen)
        tr = cm.to_tree(q2.expr)
        if tr.count("/") >= 2:
            root = cm.render_sch(q2._meta)
            try:
                after = cm.render_sch(opt._meta)
            except Exception:  # noqa: BLE001
                after = "ERR"  # the optimized query cannot declare its schema any more (C04: N1)
            parent_cols = cm.strs(q2.expr.columns) if hasattr(q2.expr, "columns") else "-"
            push_reqs.append(f"schema push t={tr} deps={parent_cols}")
            push_inputs.append({"query": label + "[sel]", "tree": tr})
            push_code.append(f"{after} {root}")
            pushes += 1
    f.compare(inputs, code, drive(reqs))
    ans = drive(push_reqs)
    ins, cs, ms = [], [], []
    for i, c, a in zip(push_inputs, push_code, ans):
        if a == "NONE":
            continue  # no modelled rule fires on this root
        fired += 1
        ins.append(i)
        cs.append(c)
        ms.append(a)
    f.compare(ins, cs, ms)
    f.note = _dist_note(dist, f"model push-down fired on {fired}/{pushes} roots; ")
    return f


def _rt_suffix(rng, which=None):
    return "@%d.%d.%d.%d.%d.%d" % (rng.randint(0, 1), rng.randint(0, 3), rng.randint(0, 3), rng.randint(0, 3),
                                   rng.randint(0, 5) if which is None else which, rng.randint(0, 1))


def _promoting(tree):
    """does the query contain an operator that introduces missing values (then kinds computed above it may be float /
    object where the declaration, inferred on fully matching stand-ins, says int / bool / float)?"""
    return any(t.startswith(("merge|left", "merge|right", "merge|outer", "concat|")) for t in tree.split("/"))


def fam_partitions(ctx):
    """computed partitions of the lowered (unoptimized) plan vs Meta.compT, for random run-time shapes of every node"""
    import dask

    from harness.props import c07_meta as cm

    f = Family("partitions[schema of every computed partition of the lowered query vs Meta.compT up to Kind.promotes; Meta.guardT holds]")
    qs = cm.enumerated_queries()
    idx = list(range(len(qs)))
    ctx.rng.shuffle(idx)
    todo = [(lb, _build(th)) for lb, th in (qs[i] for i in sorted(idx[: (260 if ctx.quick else 3000)]))]
    for _ in range(60 if ctx.quick else 1500):
        r = cm.random_query(ctx.rng, ctx.rng.randint(2, 4))
        if r is not None:
            todo.append(r)
    reqs, meta = [], []
    promoted = guard_false = not_run = 0
    for label, q in todo:
        if q is None:
            continue
        e = q.expr
        try:
            low = e.lower_completely()
            g = dict(low.__dask_graph__())
            parts = list(dask.get(g, low.__dask_keys__()))
        except Exception:  # noqa: BLE001
            not_run += 1  # declared-but-not-computable queries are the support search's business (D90)
            continue
        if cm.has_opaque_operator(e):
            continue  # the model knows the declared schema of an unmodelled operator only, not what its partitions look like
        rt = {nd._name: _rt_suffix(ctx.rng) for nd in e.walk()}
        offs = None
        if type(e).__name__ == "Concat" and e.axis == 0:
            offs = [i for i, fr in enumerate(e._frames) for _ in range(fr.npartitions)]
        for j, part in enumerate(parts):
            if offs is not None and j < len(offs):
                rt[e._name] = _rt_suffix(ctx.rng, offs[j])
            tr = cm.to_tree(e, rt)
            if "/" not in tr:
                continue
            reqs.append("schema comp t=" + tr)
            reqs.append("schema guard t=" + tr)
            meta.append((label, j, tr, cm.render_sch(part), hasattr(part, "__len__") and len(part) == 0))
    ans = drive(reqs)
    ins, cs, ms = [], [], []
    for k, (label, j, tr, c, empty) in enumerate(meta):
        m, gd = ans[2 * k], ans[2 * k + 1]
        if gd != "1":
            guard_false += 1  # outside the theorem's hypothesis: nothing is claimed
            continue
        c2, p = cm.canon(c, m, empty, lenient=_promoting(tr))
        promoted += p
        ins.append({"query": label, "partition": j, "tree": tr})
        cs.append(c2)
        ms.append(m)
    f.compare(ins, cs, ms)
    f.note = f"{len(meta)} partitions; {promoted} equal only up to the promotion relation; {guard_false} outside guardT; {not_run} queries not executable"
    return f


def fam_reduction_kinds(ctx):
    """the dtype-kind table of the model (aggKind, Kind.join, emptyKind) vs real frame reductions"""
    import itertools

    import dask_expr as dx

    from harness.props import c07_meta as cm

    f = Family("reduction_kinds[dtype kind of df.f()._meta for all kind tuples (len<=3) x 7 reductions vs Meta.redKind]")
    vals = {"i": [1, 2], "f": [1.5, 2.5], "b": [True, False], "o": ["x", "y"], "d": list(pd.to_datetime(["2020-01-01", "2020-01-02"]))}
    reqs, code, inputs = [], [], []
    tuples = [()] + [t for n in (1, 2, 3) for t in itertools.product("ifbod", repeat=n)]
    if ctx.quick:
        tuples = [t for t in tuples if len(t) <= 2] + ctx.rng.sample([t for t in tuples if len(t) == 3], 25)
    for ks in tuples:
        pdf = pd.DataFrame({f"c{i}": vals[k] for i, k in enumerate(ks)}, index=[0, 1])
        df = dx.from_pandas(pdf, npartitions=1)
        for fn in cm.REDS:
            try:
                m = getattr(df, fn)()._meta
                c = cm.kch(m.dtype)
            except Exception:  # noqa: BLE001
                c = "ERR"
            reqs.append(f"schema kinds f={fn} ks={','.join(ks)}")
            code.append(c)
            inputs.append({"f": fn, "kinds": "".join(ks)})
    f.compare(inputs, code, drive(reqs))
    f.exhaustive = not ctx.quick
    return f


# --------------------------------------------------------------------------- end to end: every node of every plan


def kind_of(x):
    if isinstance(x, pd.DataFrame):
        return "frame"
    if isinstance(x, pd.Series):
        return "series"
    if isinstance(x, pd.Index):
        return "index"
    return "scalar"


def dkind(dt):
    try:
        if isinstance(dt, pd.CategoricalDtype):
            return "cat"
        k = np.dtype(dt).kind if not hasattr(dt, "numpy_dtype") else dt.numpy_dtype.kind
    except TypeError:
        s = str(dt)
        if "string" in s or s in ("str", "object"):
            return "str"
        return "obj"
    return {"i": "int", "u": "int", "f": "float", "b": "bool", "M": "dt", "m": "td", "O": "str", "U": "str", "T": "str"}.get(k, "obj")


def _label(v):
    """labels are compared as Python values: the int 1 and the string '1' are different labels"""
    return v if isinstance(v, str) else f"<{type(v).__name__}:{v!r}>" if v is not None else "None"


def schema_of(x):
    k = kind_of(x)
    if k == "frame":
        return (k, tuple(map(_label, x.columns)), _label(x.index.name), tuple(dkind(t) for t in x.dtypes))
    if k == "series":
        return (k, _label(x.name), _label(x.index.name), (dkind(x.dtype),))
    if k == "index":
        return (k, _label(x.name), None, (dkind(x.dtype),))
    return (k, None, None, ())


def compatible(declared, actual, empty):
    """declared vs computed schema, up to pandas' promotion of int/bool columns that acquire missing values
    and to value-dependent inference on empty objects"""
    if declared[0] != actual[0]:
        # reductions to a scalar may come back as numpy scalars: both 'scalar'
        return False
    if declared[1] != actual[1] or declared[2] != actual[2]:
        return False
    if len(declared[3]) != len(actual[3]):
        return False
    for d, a in zip(declared[3], actual[3]):
        if d == a:
            continue
        if (d, a) in (("int", "float"), ("bool", "float"), ("bool", "str"), ("int", "str"), ("bool", "obj"), ("int", "obj")):
            continue  # nulls introduced
        if (d, a) in (("float", "int"), ("float", "bool"), ("str", "int"), ("str", "bool"), ("obj", "int"), ("obj", "bool")):
            continue  # the same promotion seen from the other side: meta was inferred on a stand-in that has nulls,
            # this partition has none (pandas' promotion is value dependent)
        if empty:
            continue
        return False
    return True


def check_program(p, layout, stages=("unoptimized", "simplified-logical", "fused")):
    q = plans.build(p, layout)
    if not hasattr(q, "expr"):
        return None
    declared_top = schema_of(q._meta)
    try:
        exprs = dict(plans.stage_exprs(q.expr))
    except Exception:  # noqa: BLE001
        return None  # optimiser failures belong to C01
    for st in stages:
        e = exprs[st]
        if st == "fused" and schema_of(e._meta) != declared_top:
            return f"optimisation changed the declared schema: {declared_top} -> {schema_of(e._meta)}"
        nodes = list(e.walk()) if st == "unoptimized" else [e]
        seen = set()
        for node in nodes:
            if node._name in seen or node.ndim == 0 and False:
                continue
            seen.add(node._name)
            try:
                meta = node._meta
            except Exception:  # noqa: BLE001
                continue
            if not isinstance(meta, (pd.DataFrame, pd.Series, pd.Index)):
                continue
            try:
                g, keys, parts = plans.execute(node)
            except Exception:  # noqa: BLE001
                continue  # not executable on its own (e.g. abstract helper): skip
            decl = schema_of(meta)
            for i, part in enumerate(parts):
                if not isinstance(part, (pd.DataFrame, pd.Series, pd.Index)):
                    break
                act = schema_of(part)
                if not compatible(decl, act, len(part) == 0):
                    return f"stage {st}, node {type(node).__name__}, partition {i}: declared {decl} computed {act}"
    return None


def _extra_queries():
    """Schema-sensitive shapes outside the generic program space: (name, builder(dx, pdf) -> collection)."""
    import dask_expr as dx

    n = 12
    named = pd.DataFrame({"k": np.arange(n, dtype="int64") % 4, "v": np.arange(n, dtype="float64")},
                         index=pd.Index(["r%02d" % i for i in range(n)], name="key"))
    plain = pd.DataFrame({"x": np.arange(n, dtype="int64"), "y": np.arange(n, dtype="float64")})

    def keep_name(s):
        return s * 2.0  # keeps the input's name 'x'; meta says 'dx': enforcement has to rename

    qs = []
    for method in ("disk", "tasks", None):
        for ii in (True, False):
            kw = {"shuffle_method": method} if method else {}
            qs.append((f"shuffle_ii{int(ii)}_{method}", lambda dx_, m=method, ii=ii, kw=kw: dx_.from_pandas(named, npartitions=3).shuffle("k", ignore_index=ii, **kw)))
            qs.append((f"shuffle_ii{int(ii)}_{method}_reset", lambda dx_, m=method, ii=ii, kw=kw: dx_.from_pandas(named, npartitions=3).shuffle("k", ignore_index=ii, **kw).reset_index()))
    for td in (True, False):
        for em in (True, False):
            qs.append((f"map_overlap_td{int(td)}_em{int(em)}", lambda dx_, td=td, em=em: dx_.from_pandas(plain, npartitions=3).x.map_overlap(
                keep_name, 1, 0, meta=("dx", "f8"), transform_divisions=td, enforce_metadata=em)))
            qs.append((f"map_partitions_em{int(em)}_{int(td)}", lambda dx_, td=td, em=em: dx_.from_pandas(plain, npartitions=3).x.map_partitions(
                keep_name, meta=("dx", "f8"), enforce_metadata=em, transform_divisions=td)))
    # a column-projectable from_map source asked for an empty / a foreign column selection (D84)
    A = pd.DataFrame({"a": [1, 2, 3, 4], "b": [5, 6, 7, 8]})
    B = pd.DataFrame({"c": [1, 2, 3, 4], "d": [5, 6, 7, 8]}, index=[4, 5, 6, 7])

    def fm(dx_, p):
        parts = [p.iloc[:2], p.iloc[2:]]
        return dx_.from_map(lambda i, columns=None: (parts[i][columns] if columns is not None else parts[i]), [0, 1], meta=p.iloc[:0])

    qs.append(("from_map_empty_selection", lambda dx_: fm(dx_, A)[[]]))
    qs.append(("from_map_concat_foreign_column", lambda dx_: dx_.concat([fm(dx_, A), fm(dx_, B)])[["d"]]))
    # non-string labels through the shuffle-based groupby UDF path (the lowering stringifies labels for the shuffle and
    # has to map them back), grouped by a Series expression, no meta= given
    ints = pd.DataFrame({0: [0, 1, 0, 1, 2, 2, 3, 3], 1: [1, 2, 3, 4, 5, 6, 7, 8], 2: [0.5, 1.5, 2.5, 3.5, 4.5, 5.5, 6.5, 7.5]})
    qs.append(("gb_series_key_int_name_apply", lambda dx_: (lambda d: d[1].groupby(d[0] % 2).apply(lambda s: s + 1))(dx_.from_pandas(ints, npartitions=3))))
    qs.append(("gb_series_key_int_name_transform", lambda dx_: (lambda d: d[1].groupby(d[0] % 2).transform(lambda s: s - s.mean()))(dx_.from_pandas(ints, npartitions=3))))
    qs.append(("gb_series_key_int_cols_shift", lambda dx_: (lambda d: d[[1, 2]].groupby(d[0] % 2).shift(1))(dx_.from_pandas(ints, npartitions=3))))
    qs.append(("set_index_drop_false_head", lambda dx_: dx_.from_pandas(plain, npartitions=3).set_index("x", drop=False).head(3, compute=False)))
    # D89 (fixed): row-wise concat of inputs with different index names / series names
    A2 = pd.DataFrame({"a": [1, 2]}, index=pd.Index([1, 2], name="i"))
    B2 = pd.DataFrame({"a": [3, 4]}, index=pd.Index([3, 4], name="j"))
    qs.append(("concat_index_names_reset", lambda dx_: dx_.concat([dx_.from_pandas(A2, npartitions=1), dx_.from_pandas(B2, npartitions=1)]).reset_index()))
    qs.append(("concat_series_names_to_frame", lambda dx_: dx_.concat([dx_.from_pandas(A, npartitions=1).a, dx_.from_pandas(A, npartitions=1).b]).to_frame(name="v")))
    # D96 (fixed): column selection above a list-sliced groupby aggregation
    G = pd.DataFrame({"a": [1, 2, 3, 4], "b": [1.0, 2, 3, 4], "c": [5, 6, 7, 8], "k": [0, 0, 1, 1]})
    qs.append(("groupby_list_slice_select", lambda dx_: dx_.from_pandas(G, npartitions=2).groupby("k")[["a", "b"]].sum()[["a"]]))
    qs.append(("groupby_list_slice_count_select", lambda dx_: dx_.from_pandas(G, npartitions=2).groupby("k")[["b", "a"]].count()[["a"]]))
    # D88 (open): a user column named like the shuffle's helper column
    Rsv = pd.DataFrame({"_partitions": [5, 6, 7, 8, 9, 10], "a": [3, 1, 2, 6, 5, 4], "b": list("xyzuvw")})
    Rr = pd.DataFrame({"a": [1, 2, 3, 4, 5, 6], "z": [1, 1, 1, 1, 1, 1]})
    qs.append(("reserved_label_set_index", lambda dx_: dx_.from_pandas(Rsv, npartitions=3).set_index("a", shuffle_method="tasks")))
    qs.append(("reserved_label_shuffle", lambda dx_: dx_.from_pandas(Rsv, npartitions=3).shuffle("a", shuffle_method="tasks")))
    qs.append(("reserved_label_merge", lambda dx_: dx_.from_pandas(Rsv, npartitions=3).merge(dx_.from_pandas(Rr, npartitions=2), on="a", shuffle_method="tasks")))
    # D90 (open): mean of a datetime column is declared but cannot be computed
    Dt = pd.DataFrame({"a": [1, 2, 3, 4], "e": pd.to_datetime(["2020-01-01"] * 4)})
    qs.append(("datetime_mean_series", lambda dx_: dx_.from_pandas(Dt, npartitions=2).e.mean()))
    qs.append(("datetime_mean_frame", lambda dx_: dx_.from_pandas(Dt, npartitions=2)[["e"]].mean()))
    # D35 (open) seen by C07: the rule removes an input of a column-wise concat and with it the declared promotion
    Bi = pd.DataFrame({"c": [1, 2, 3, 4], "d": [5, 6, 7, 8]}, index=pd.Index([0, 1, 2, 3], name="id"))
    qs.append(("concat_axis1_select", lambda dx_: dx_.concat([dx_.from_pandas(A, npartitions=1), dx_.from_pandas(Bi, npartitions=1)], axis=1)[["a"]]))
    # candidate 6: the declared index name of a row-wise concat is the one of a leading RangeIndex stand-in
    Pk = pd.DataFrame({"a": [3, 1, 2, 5], "k": [0, 1, 0, 2]})
    Ci = pd.DataFrame({"a": [1, 2]}, index=pd.Index([7, 8], name="id"))
    # D114 (fixed): a reader that reads more than its `columns` operand says (read_csv: path column, at least one data column)
    def csvp(dx_, sel, flag=True):
        import os
        import tempfile

        d = os.path.join(tempfile.gettempdir(), "verif-c07-csvpath-%d" % os.getpid())
        if not os.path.exists(d):
            os.makedirs(d)
            pd.DataFrame({"a": [1, 2, 3], "b": [4, 5, 6]}).to_csv(os.path.join(d, "x1.csv"), index=False)
            pd.DataFrame({"a": [7, 8], "b": [9, 10]}).to_csv(os.path.join(d, "x2.csv"), index=False)
            import atexit
            import shutil

            atexit.register(shutil.rmtree, d, ignore_errors=True)
        return dx_.read_csv(os.path.join(d, "x*.csv"), include_path_column=flag)[sel]

    qs.append(("read_csv_path_select_data", lambda dx_: csvp(dx_, ["a"])))
    qs.append(("read_csv_path_select_path", lambda dx_: csvp(dx_, ["path"])))
    qs.append(("read_csv_path_select_named", lambda dx_: csvp(dx_, ["b", "src"], "src")))
    qs.append(("concat_rangeindex_standin_name", lambda dx_: dx_.concat([dx_.from_pandas(Pk, npartitions=2).set_index("k"), dx_.from_pandas(Ci, npartitions=1)])))
    return qs


_EXTRA_SIG = {
    "concat_rangeindex_standin_name": {"kind": "schema-concat-index-name", "cause": "rangeindex-standin"},
    "reserved_label_set_index": {"kind": "schema-reserved-label", "label": "_partitions", "op": "set_index"},
    "reserved_label_shuffle": {"kind": "schema-reserved-label", "label": "_partitions", "op": "shuffle"},
    "reserved_label_merge": {"kind": "schema-reserved-label", "label": "_partitions", "op": "merge"},
    "datetime_mean_series": {"kind": "schema-declared-but-raises", "op": "mean", "dtype": "datetime", "input": "series"},
    "datetime_mean_frame": {"kind": "schema-declared-but-raises", "op": "mean", "dtype": "datetime", "input": "frame"},
    "concat_axis1_select": {"site": "Concat._simplify_up", "axis": 1, "kind": "schema-opt-changed"},
    "concat_index_names_reset": {"kind": "schema-concat-passthrough-names", "what": "index-name"},
    "concat_series_names_to_frame": {"kind": "schema-concat-passthrough-names", "what": "series-name"},
    "groupby_list_slice_select": {"kind": "schema-pushdown-raises", "op": "groupby-list-slice"},
    "groupby_list_slice_count_select": {"kind": "schema-pushdown-raises", "op": "groupby-list-slice"},
}


def check_extra(name):
    import dask_expr as dx

    q = dict(_extra_queries())[name](dx)
    enforced = "_em0" not in name  # without enforcement the user takes responsibility for the declared schema
    decl = schema_of(q._meta)
    for st, e in plans.stage_exprs(q.expr, stages=["simplified-logical", "fused"]):
        if schema_of(e._meta) != decl:
            return f"{name}: declared {decl}, after '{st}' {schema_of(e._meta)}"
        g, keys, parts = plans.execute(e)
        for i, part in enumerate(parts):
            act = schema_of(part)
            if enforced and not compatible(decl, act, hasattr(part, "__len__") and len(part) == 0):
                return f"{name}, stage {st}, partition {i}: declared {decl} computed {act}"
    return None


def check_enumerated(label):
    """end-to-end check of one enumerated query of the correspondence families: declared vs computed partitions, before and
    after optimization (used to turn a model-vs-code disagreement into a concrete failing input)"""
    from harness.props import c07_meta as cm

    thunk = dict(cm.enumerated_queries()).get(label)
    if thunk is None:
        return None
    q = thunk()
    decl = schema_of(q._meta)
    for st, e in plans.stage_exprs(q.expr, stages=["simplified-logical", "fused"]):
        if st != "unoptimized" and schema_of(e._meta) != decl:
            return f"{label}: declared {decl}, after '{st}' {schema_of(e._meta)}"
        g, keys, parts = plans.execute(e)
        for i, part in enumerate(parts):
            act = schema_of(part)
            if not compatible(decl, act, hasattr(part, "__len__") and len(part) == 0):
                return f"{label}, stage {st}, partition {i}: declared {decl} computed {act}"
    return None


def _cases(ctx):
    progs = programs.valid_programs(2, "any")
    must = [p for p in progs if p.name in (
        "merge_left", "merge_outer_sfx", "concat", "concat_axis1", "set_index_a/id", "reset_index_keep/id", "gb_agg",
        "rename_aA/prefix/id", "filt_cnull/sum", "astype_f/id", "shift1/id", "cumsum/id", "dropna/col0", "head3/index",
        "filt_a/vc_last", "assign_z/gb_sum", "where", "two_shifts")]
    return must + plans.seeded_slice(ctx, progs, 30 if ctx.quick else 1000)


def families(ctx):
    return [fam_labels, fam_decl_nodes, fam_decl_random, fam_optimized_nodes, fam_partitions, fam_reduction_kinds]


def support(ctx, broken):
    sup = Support()
    for name, _ in _extra_queries():
        try:
            msg = check_extra(name)
        except Exception as ex:  # noqa: BLE001
            msg = f"{name}: raised {type(ex).__name__}: {str(ex)[:160]}"
        sup.executed += 1
        sup.count("extra")
        if msg:
            sup.failures.append(Failure(sig=_EXTRA_SIG.get(name, {"kind": "schema-extra", "query": name}), case={"extra": name}, detail=msg))
    # steer by what broke: the disagreeing inputs of the correspondence families, executed for real
    steered = []
    for b in broken or []:
        if b.get("kind") == "correspondence" and isinstance(b.get("first"), dict):
            inp = b["first"].get("input")
            if isinstance(inp, dict) and isinstance(inp.get("query"), str):
                lb = inp["query"][:-5] if inp["query"].endswith("[sel]") else inp["query"]
                steered.append((b.get("family", "?").split("[")[0], lb))
    for fam, lb in steered[:8]:
        try:
            msg = check_enumerated(lb)
        except Exception as ex:  # noqa: BLE001
            msg = f"{lb}: raised {type(ex).__name__}: {str(ex)[:160]}"
        sup.executed += 1
        sup.count("steered")
        if msg:
            sup.failures.append(Failure(sig={"kind": "schema-model-disagreement", "family": fam, "query": lb},
                                        case={"enumerated": lb}, detail=msg))
    layouts = [0, 1] if ctx.quick else [0, 1, 2, 3, 4]
    for p in _cases(ctx):
        for layout in layouts:
            try:
                msg = check_program(p, layout)
            except Exception as ex:  # noqa: BLE001
                sup.count("not-checkable")
                continue
            sup.executed += 1
            sup.count(f"layout{layout}")
            if len(sup.samples) < 3:
                sup.samples.append({"program": p.name, "layout": layout})
            if msg:
                sup.failures.append(Failure(sig={"kind": "schema", "program": p.name}, case={"program": p.name, "layout": layout}, detail=msg))
        if len(sup.failures) >= 8:
            break
    return sup


def replay(case):
    if "enumerated" in case:
        msg = check_enumerated(case["enumerated"])
        return Failure(sig={}, case=case, detail=msg) if msg else None
    if "extra" in case:
        msg = check_extra(case["extra"])
        return Failure(sig={}, case=case, detail=msg) if msg else None
    progs = {p.name: p for p in programs.valid_programs(2, "any")}
    msg = check_program(progs[case["program"]], case["layout"])
    return Failure(sig={}, case=case, detail=msg) if msg else None
