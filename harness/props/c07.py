"""C07 — declared schema matches the computed data."""
from __future__ import annotations

import numpy as np
import pandas as pd

from harness import e2e, plans, programs
from harness.core import Failure, Family, Support, drive

LEAN_MODULES = ["DxModel.Props.C07"]
GENERATED = []
TRUSTED = [
    "pandas' own dtype inference on stand-in data (meta_nonempty / _emulate) — outside the model; dtype *kinds* are compared end-to-end",
    "label-level model of rename/add_prefix/add_suffix/projection/assign/drop/filter (Schema.lean), tied by the labels family",
]
PARTIAL = [
    "dtype kinds are not modelled (pandas inference); compared end to end up to pandas' promotion of int/bool columns that acquire missing values",
    "operators outside the label-level fragment (reductions, groupby, merge, concat, reshaping) are covered only by the node-by-node comparison of every vetted plan",
]
EXPLANATION = (
    "Theorems: declared labels = labels of the computed frame for every label-level operator and every chain, hence for "
    "every partition (incl. empty), and independent of whether the stand-in meta or real data is used. Tie: real `_meta.columns` "
    "of generated operator chains vs the model. Support: for every node of every plan stage of the vetted programs x layouts "
    "(incl. empty partitions): container kind, labels and order, series/index names and dtype kinds of `_meta` equal those of "
    "the computed node and of each computed partition; the optimised plan declares the same schema as the query."
)


# --------------------------------------------------------------------------- T2: labels of operator chains


def _apply(df, op):
    k = op[0]
    if k == "rename":
        return df.rename(columns=dict(op[1]))
    if k == "prefix":
        return df.add_prefix(op[1])
    if k == "suffix":
        return df.add_suffix(op[1])
    if k == "proj":
        return df[list(op[1])]
    if k == "assign":
        return df.assign(**{op[1]: 1})
    if k == "drop":
        return df.drop(columns=list(op[1]))
    if k == "filter":
        return df[df[df.columns[0]] >= 0]
    raise ValueError(k)


def _render(op):
    k = op[0]
    if k == "rename":
        return "rename:" + ",".join(f"{a}>{b}" for a, b in op[1])
    if k in ("prefix", "suffix", "assign"):
        return f"{k}:{op[1]}"
    if k in ("proj", "drop"):
        return f"{k}:" + (",".join(op[1]) or "-")
    return "filter"


def fam_labels(ctx):
    import dask_expr as dx

    f = Family("declared_labels[_meta.columns of rename/prefix/suffix/projection/assign/drop/filter chains]")
    rng = ctx.rng
    pdf = pd.DataFrame({"a": [1, 2, 3, 4], "b": [1, 2, 3, 4], "c": [5, 6, 7, 8], "d": [0, 0, 1, 1]})
    df = dx.from_pandas(pdf, npartitions=2)
    reqs, code, inputs = [], [], []
    for _ in range(250 if ctx.quick else 3000):
        cur = list(pdf.columns)
        q, ops = df, []
        for _ in range(rng.randint(1, 4)):
            kind = rng.choice(["rename", "prefix", "suffix", "proj", "assign", "drop", "filter"])
            if kind == "rename":
                src = rng.sample(cur, k=min(len(cur), rng.randint(1, 2)))
                m = [(s, s.upper() + "r") for s in src if s.upper() + "r" not in cur]
                if rng.random() < 0.3:
                    m.append(("zz_absent", "q"))
                if not m:
                    continue
                op = ("rename", m)
                nxt = [dict(m).get(c, c) for c in cur]
            elif kind == "prefix":
                op = ("prefix", rng.choice(["p_", "x"]))
                nxt = [op[1] + c for c in cur]
            elif kind == "suffix":
                op = ("suffix", rng.choice(["_s", "y"]))
                nxt = [c + op[1] for c in cur]
            elif kind == "proj":
                sel = rng.sample(cur, k=rng.randint(1, len(cur)))
                op = ("proj", sel)
                nxt = sel
            elif kind == "assign":
                name = rng.choice(["z", cur[0]])
                op = ("assign", name)
                nxt = cur if name in cur else cur + [name]
            elif kind == "drop":
                if len(cur) < 2:
                    continue
                sel = rng.sample(cur, k=1)
                op = ("drop", sel)
                nxt = [c for c in cur if c not in sel]
            else:
                op = ("filter",)
                nxt = cur
            if len(set(nxt)) != len(nxt):
                continue
            try:
                q = _apply(q, op)
            except Exception:  # noqa: BLE001
                break
            ops.append(op)
            cur = nxt
        if not ops:
            continue
        for form, e in (("declared", q), ("optimized", q.optimize())):
            code.append(",".join(map(str, e._meta.columns)))
            reqs.append("schema chain labels=a,b,c,d ops=" + ";".join(_render(o) for o in ops))
            inputs.append({"ops": [_render(o) for o in ops], "form": form})
    f.compare(inputs, code, drive(reqs))
    return f


# --------------------------------------------------------------------------- end to end: every node of every plan


def kind_of(x):
    if isinstance(x, pd.DataFrame):
        return "frame"
    if isinstance(x, pd.Series):
        return "series"
    if isinstance(x, pd.Index):
        return "index"
    return "scalar"


def dkind(dt):
    try:
        if isinstance(dt, pd.CategoricalDtype):
            return "cat"
        k = np.dtype(dt).kind if not hasattr(dt, "numpy_dtype") else dt.numpy_dtype.kind
    except TypeError:
        s = str(dt)
        if "string" in s or s in ("str", "object"):
            return "str"
        return "obj"
    return {"i": "int", "u": "int", "f": "float", "b": "bool", "M": "dt", "m": "td", "O": "str", "U": "str", "T": "str"}.get(k, "obj")


def schema_of(x):
    k = kind_of(x)
    if k == "frame":
        return (k, tuple(map(str, x.columns)), str(x.index.name), tuple(dkind(t) for t in x.dtypes))
    if k == "series":
        return (k, str(x.name), str(x.index.name), (dkind(x.dtype),))
    if k == "index":
        return (k, str(x.name), None, (dkind(x.dtype),))
    return (k, None, None, ())


def compatible(declared, actual, empty):
    """declared vs computed schema, up to pandas' promotion of int/bool columns that acquire missing values
    and to value-dependent inference on empty objects"""
    if declared[0] != actual[0]:
        # reductions to a scalar may come back as numpy scalars: both 'scalar'
        return False
    if declared[1] != actual[1] or declared[2] != actual[2]:
        return False
    if len(declared[3]) != len(actual[3]):
        return False
    for d, a in zip(declared[3], actual[3]):
        if d == a:
            continue
        if (d, a) in (("int", "float"), ("bool", "float"), ("bool", "str"), ("int", "str"), ("bool", "obj"), ("int", "obj")):
            continue  # nulls introduced
        if (d, a) in (("float", "int"), ("float", "bool"), ("str", "int"), ("str", "bool"), ("obj", "int"), ("obj", "bool")):
            continue  # the same promotion seen from the other side: meta was inferred on a stand-in that has nulls,
            # this partition has none (pandas' promotion is value dependent)
        if empty:
            continue
        return False
    return True


def check_program(p, layout, stages=("unoptimized", "simplified-logical", "fused")):
    q = plans.build(p, layout)
    if not hasattr(q, "expr"):
        return None
    declared_top = schema_of(q._meta)
    try:
        exprs = dict(plans.stage_exprs(q.expr))
    except Exception:  # noqa: BLE001
        return None  # optimiser failures belong to C01
    for st in stages:
        e = exprs[st]
        if st == "fused" and schema_of(e._meta) != declared_top:
            return f"optimisation changed the declared schema: {declared_top} -> {schema_of(e._meta)}"
        nodes = list(e.walk()) if st == "unoptimized" else [e]
        seen = set()
        for node in nodes:
            if node._name in seen or node.ndim == 0 and False:
                continue
            seen.add(node._name)
            try:
                meta = node._meta
            except Exception:  # noqa: BLE001
                continue
            if not isinstance(meta, (pd.DataFrame, pd.Series, pd.Index)):
                continue
            try:
                g, keys, parts = plans.execute(node)
            except Exception:  # noqa: BLE001
                continue  # not executable on its own (e.g. abstract helper): skip
            decl = schema_of(meta)
            for i, part in enumerate(parts):
                if not isinstance(part, (pd.DataFrame, pd.Series, pd.Index)):
                    break
                act = schema_of(part)
                if not compatible(decl, act, len(part) == 0):
                    return f"stage {st}, node {type(node).__name__}, partition {i}: declared {decl} computed {act}"
    return None


def _extra_queries():
    """Schema-sensitive shapes outside the generic program space: (name, builder(dx, pdf) -> collection)."""
    import dask_expr as dx

    n = 12
    named = pd.DataFrame({"k": np.arange(n, dtype="int64") % 4, "v": np.arange(n, dtype="float64")},
                         index=pd.Index(["r%02d" % i for i in range(n)], name="key"))
    plain = pd.DataFrame({"x": np.arange(n, dtype="int64"), "y": np.arange(n, dtype="float64")})

    def keep_name(s):
        return s * 2.0  # keeps the input's name 'x'; meta says 'dx': enforcement has to rename

    qs = []
    for method in ("disk", "tasks", None):
        for ii in (True, False):
            kw = {"shuffle_method": method} if method else {}
            qs.append((f"shuffle_ii{int(ii)}_{method}", lambda dx_, m=method, ii=ii, kw=kw: dx_.from_pandas(named, npartitions=3).shuffle("k", ignore_index=ii, **kw)))
            qs.append((f"shuffle_ii{int(ii)}_{method}_reset", lambda dx_, m=method, ii=ii, kw=kw: dx_.from_pandas(named, npartitions=3).shuffle("k", ignore_index=ii, **kw).reset_index()))
    for td in (True, False):
        for em in (True, False):
            qs.append((f"map_overlap_td{int(td)}_em{int(em)}", lambda dx_, td=td, em=em: dx_.from_pandas(plain, npartitions=3).x.map_overlap(
                keep_name, 1, 0, meta=("dx", "f8"), transform_divisions=td, enforce_metadata=em)))
            qs.append((f"map_partitions_em{int(em)}_{int(td)}", lambda dx_, td=td, em=em: dx_.from_pandas(plain, npartitions=3).x.map_partitions(
                keep_name, meta=("dx", "f8"), enforce_metadata=em, transform_divisions=td)))
    # a column-projectable from_map source asked for an empty / a foreign column selection (D84)
    A = pd.DataFrame({"a": [1, 2, 3, 4], "b": [5, 6, 7, 8]})
    B = pd.DataFrame({"c": [1, 2, 3, 4], "d": [5, 6, 7, 8]}, index=[4, 5, 6, 7])

    def fm(dx_, p):
        parts = [p.iloc[:2], p.iloc[2:]]
        return dx_.from_map(lambda i, columns=None: (parts[i][columns] if columns is not None else parts[i]), [0, 1], meta=p.iloc[:0])

    qs.append(("from_map_empty_selection", lambda dx_: fm(dx_, A)[[]]))
    qs.append(("from_map_concat_foreign_column", lambda dx_: dx_.concat([fm(dx_, A), fm(dx_, B)])[["d"]]))
    qs.append(("set_index_drop_false_head", lambda dx_: dx_.from_pandas(plain, npartitions=3).set_index("x", drop=False).head(3, compute=False)))
    return qs


def check_extra(name):
    import dask_expr as dx

    q = dict(_extra_queries())[name](dx)
    enforced = "_em0" not in name  # without enforcement the user takes responsibility for the declared schema
    decl = schema_of(q._meta)
    for st, e in plans.stage_exprs(q.expr, stages=["simplified-logical", "fused"]):
        if schema_of(e._meta) != decl:
            return f"{name}: declared {decl}, after '{st}' {schema_of(e._meta)}"
        g, keys, parts = plans.execute(e)
        for i, part in enumerate(parts):
            act = schema_of(part)
            if enforced and not compatible(decl, act, len(part) == 0):
                return f"{name}, stage {st}, partition {i}: declared {decl} computed {act}"
    return None


def _cases(ctx):
    progs = programs.valid_programs(2, "any")
    must = [p for p in progs if p.name in (
        "merge_left", "merge_outer_sfx", "concat", "concat_axis1", "set_index_a/id", "reset_index_keep/id", "gb_agg",
        "rename_aA/prefix/id", "filt_cnull/sum", "astype_f/id", "shift1/id", "cumsum/id", "dropna/col0", "head3/index",
        "filt_a/vc_last", "assign_z/gb_sum", "where", "two_shifts")]
    return must + plans.seeded_slice(ctx, progs, 30 if ctx.quick else 2500)


def families(ctx):
    return [fam_labels]


def support(ctx, broken):
    sup = Support()
    for name, _ in _extra_queries():
        try:
            msg = check_extra(name)
        except Exception as ex:  # noqa: BLE001
            msg = f"{name}: raised {type(ex).__name__}: {str(ex)[:160]}"
        sup.executed += 1
        sup.count("extra")
        if msg:
            sup.failures.append(Failure(sig={"kind": "schema-extra", "query": name}, case={"extra": name}, detail=msg))
    layouts = [0, 1] if ctx.quick else [0, 1, 2, 3, 4]
    for p in _cases(ctx):
        for layout in layouts:
            try:
                msg = check_program(p, layout)
            except Exception as ex:  # noqa: BLE001
                sup.count("not-checkable")
                continue
            sup.executed += 1
            sup.count(f"layout{layout}")
            if len(sup.samples) < 3:
                sup.samples.append({"program": p.name, "layout": layout})
            if msg:
                sup.failures.append(Failure(sig={"kind": "schema", "program": p.name}, case={"program": p.name, "layout": layout}, detail=msg))
        if len(sup.failures) >= 8:
            break
    return sup


def replay(case):
    if "extra" in case:
        msg = check_extra(case["extra"])
        return Failure(sig={}, case=case, detail=msg) if msg else None
    progs = {p.name: p for p in programs.valid_programs(2, "any")}
    msg = check_program(progs[case["program"]], case["layout"])
    return Failure(sig={}, case=case, detail=msg) if msg else None
