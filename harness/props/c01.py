"""C01 — optimization never changes what a query computes.

T2  the real `Expr.rewrite / simplify_once / simplify / lower_once / lower_completely / optimize_until`
    of dask_expr/_core.py, _expr.py are run on table-driven stub `Expr` subclasses and compared with the
    Lean model (Driver/Drivers.lean) on the same rule table and tree; `collect_dependents` likewise.
T3  every `_simplify_down/_simplify_up/_tune_down/_tune_up/_lower` of every live Expr class is wrapped
    while the vetted programs are optimized; firings are attributed to rule families.
support / failing-input search = the C01 oracle: every optimizer stage's plan of every vetted program
    computes the same as the program lowered without optimization.
"""
from __future__ import annotations

import collections
import hashlib
import itertools
import multiprocessing as mp
import os
import random
import sys
import traceback

from harness import e2e, plans, programs
from harness.core import Failure, Family, Support, drive

LEAN_MODULES = ["DxModel.Props.C01"]
GENERATED = []
TRUSTED = [
    "RulesSound is a hypothesis of the general driver theorems. It is a THEOREM (C01_fragment_rules_sound, from the C04/C03 rule theorems) for the fragment of real classes of DxModel/Fragment.lean with the rule system fragRules; for every other rule class it is proven per rule family in C03/C04/C11/C06 in their own vocabulary, or (unmodelled_rule_firings in the support distribution) covered by the differential search only",
    "fragment: the column-level interpretation `Interp` (what pandas does to the rows of a column: elementwise functions, masks, join row matching, stacking) is a parameter of the fragment theorems, constrained only by MaskLaws (`&`/`|` act row by row, a mask is determined by its truth values); labels/ndim (`schemaOf`) and the rule outputs are tied to the real classes by the family `fragment`",
    "fragment: the abstraction of real expressions to model trees (harness/props/c01.py frag_abstract: class, operand order, column lists; operands the fragment's rules never read - npartitions, shuffle options of Merge - are dropped)",
    "identification of `_name` equality with structural equality of trees (property C08)",
    "optimize_blockwise_fusion is an abstract sound step of the pipeline model (property C14)",
    "weak references in the dependents map are modelled as live (the T2 stubs, and every expression created while a fragment query is simplified, are kept alive); the theorems quantify over arbitrary maps",
    "harness/e2e.py canonical comparison; the unoptimized plan (expr.lower_completely()) executed by dask's synchronous scheduler is the oracle",
]
PARTIAL = [
    "rule results that are not expressions (`if not isinstance(out, Expr): return out`) are not modelled",
    "termination of the drivers is not claimed here (C19): fuel is explicit, 'Optimizer does not converge' is an outcome of the model",
    "RulesSound is discharged (C01_fragment_rules_sound; C01_fragment_optimize_sound / _no_new_failure have no hypothesis on the rules) ONLY for the fragment: classes FromPandas, Projection (list and scalar), Abs/Neg/Pos/Invert, Binop with a python scalar on the right, Binop of two expressions over one frame (incl. And/Or of predicates), Assign, RenameFrame (dict), Filter, Merge on columns (inner/left/right/outer), Concat(axis=0, outer/inner); rules Projection._simplify_down, Assign._simplify_down, BlockwiseIO._simplify_up[Projection], plain_column_projection (Blockwise pass-through, Unaryop), Binop._simplify_up, Assign._simplify_up, RenameFrame._simplify_up, Filter._simplify_up (OR factoring for any parent; Projection branch), Merge._simplify_up[Projection], Concat._simplify_up. For every other class the soundness of each concrete rule stays the hypothesis RulesSound; the T3 trace says which firings belong to families with Lean soundness theorems",
    "not in the fragment's rule system (the model returns none where the real rule may fire; the family's query generator avoids these shapes): squashing two consecutive Filters, Filter push-down into a Merge, the Projection branch of a Filter whose frame is a Filter or Merge (its guard needs is_filter_pushdown_available), Index parents; every _lower / _tune_* rule and blockwise fusion (fragRules has none: in the fragment theorems the stages after simplify are the identity)",
    "side conditions that are part of the fragment's definedness (an expression violating them denotes nothing, decidable by fragWF = schemaOf defined; the theorems say nothing about it): labels duplicate-free and present; Binop of two frames only with equal label lists (open finding D39, C01_fragment_binop_labels_counterexample); Merge only when the join keys are columns, a key of one side does not collide with a non-key column of the other (open finding D34, C01_fragment_merge_collision_counterexample) and the result labels are duplicate-free; rename without label collisions; Assign values and Filter predicates are Series expressions; a row-wise Concat needs an input with columns, and with join='inner' every input must have columns (Concat._meta leaves inputs without columns out when it declares the labels, so dask-expr declares and computes the labels of the remaining inputs where pandas computes none)",
]
EXPLANATION = (
    "Theorems: every driver (rewrite, simplify_once with its cache and bandaid-extended dependents map, simplify, lower_once, "
    "lower_completely, optimize_until at every stage) returns an expression denoting the same as its input, for all trees, all "
    "rule systems, all dependents maps, all fuel, up to any congruence; no new failure under partial semantics; deps-sensitive "
    "variant on traced firings. For the fragment of real classes (DxModel/Fragment.lean: literal operands coded into the node "
    "literal, partial denotation over abstract columns, rule system fragRules defined by the Dx.Cols / Dx.Pred rule functions) "
    "RulesSound is proven from the C04/C03 theorems, so optimize/simplify/simplify_once preserve the denoted frame of every "
    "well-formed fragment query with no hypothesis on the rules and for arbitrary dependents maps; concrete queries are optimized "
    "by the kernel (projection through Assign/Merge/RenameFrame into the sources, a shared sub-expression, OR factoring). "
    "Tie: the real drivers on table-driven stub classes == the model (result tree, firing trace with "
    "the size of the dependents list seen, non-convergence), exhaustive small trees x enumerated/seeded rule tables; real "
    "simplify() on real fragment queries == the model's simplify with fragRules on the abstracted query (exact tree), labels/ndim "
    "of query and result == schemaOf. "
    "Support: optimized plan at every stage == unoptimized plan on the vetted program space, both shuffle methods, and on the "
    "fragment queries."
)
RULE = ("T2 inputs: rule table x tree (exhaustive up to a node bound, then seeded); non-trivial = at least one rule fired or the run "
        "did not converge. Fragment: hand-written + seeded random real queries of depth <= 4; non-trivial = simplify() rewrote the query. "
        "Support: programs of harness/programs.py x layouts x shuffle method x stage, and the fragment queries.")


# =========================================================================== T2: stub rule systems

# ---- term / table syntax shared with Driver/Drivers.lean


def parse_term(s):
    """-> ('var', i) | ('node', cls, lit|None, [terms])"""
    t, rest = _parse(s, 0)
    assert rest == len(s), (s, rest)
    return t


def _parse(s, i):
    if s[i] == "$":
        j = i + 1
        while j < len(s) and s[j].isdigit():
            j += 1
        return ("var", int(s[i + 1 : j])), j
    j = i
    while s[j].isdigit():
        j += 1
    cls = int(s[i:j])
    assert s[j] == "."
    j += 1
    if s[j] == "*":
        lit = None
        j += 1
    else:
        k = j
        while j < len(s) and s[j].isdigit():
            j += 1
        lit = int(s[k:j])
    args = []
    if j < len(s) and s[j] == "(":
        j += 1
        while True:
            a, j = _parse(s, j)
            args.append(a)
            if s[j] == ",":
                j += 1
                continue
            assert s[j] == ")"
            j += 1
            break
    return ("node", cls, lit, args), j


def parse_table(text):
    tab = {"d": [], "u": [], "td": [], "tu": [], "l": []}
    if text in ("-", ""):
        return tab
    for ent in text.split(";"):
        kind, body = ent.split(":")
        lhs, tmpl = body.split(">")
        if kind in ("d", "td", "l"):
            tab[kind].append((parse_term(lhs), parse_term(tmpl)))
        else:
            cond = "any"
            if "?" in lhs:
                lhs, cond = lhs.split("?")
            c, p = lhs.split("^")
            tab[kind].append((parse_term(c), parse_term(p), cond, parse_term(tmpl)))
    return tab


class _Budget(BaseException):
    """the stub rules were called more often than the budget allows: the real driver does not terminate
    (or takes longer than the model's fuel)"""


class _State:
    table = parse_table("-")
    calls = 0
    budget = 10**9
    trace = []
    keep = []  # strong references: no weak reference of the dependents map dies during a run


_STUBS = {}


def stub_class(cls_id, arity):
    """real subclass of dask_expr._expr.Expr: operands = [lit, child_0, …, child_{arity-1}]"""
    key = (cls_id, arity)
    if key in _STUBS:
        return _STUBS[key]
    import pandas as pd

    from dask_expr._expr import Expr

    def _new(cls, *args, **kwargs):
        inst = Expr.__new__(cls, *args, **kwargs)
        _State.keep.append(inst)
        return inst

    def _tick():
        _State.calls += 1
        if _State.calls > _State.budget:
            raise _Budget()

    def _simplify_down(self):
        _tick()
        return _apply_down(_State.table["d"], self)

    def _simplify_up(self, parent, dependents):
        _tick()
        out = _apply_up(_State.table["u"], self, parent, dependents)
        if out is not None and out._name != parent._name:
            n = len(dependents[self._name]) if self._name in dependents else 0
            _State.trace.append(f"{render(self)}^{render(parent)}#{n}>{render(out)}")
        return out

    def _tune_down(self):
        _tick()
        return _apply_down(_State.table["td"], self)

    def _tune_up(self, parent):
        _tick()
        return _apply_up(_State.table["tu"], self, parent, None)

    def _lower(self):
        _tick()
        return _apply_down(_State.table["l"], self)

    ns = {
        "_parameters": ["lit"] + [f"x{i}" for i in range(arity)],
        "_cls_id": cls_id,
        "__new__": _new,
        "_meta": property(lambda self: pd.DataFrame({"a": [1]}).iloc[:0]),
        "_divisions": lambda self: (None, None),
        "_simplify_down": _simplify_down,
        "_simplify_up": _simplify_up,
        "_tune_down": _tune_down,
        "_tune_up": _tune_up,
        "_lower": _lower,
    }
    c = type(f"Stub{cls_id}A{arity}", (Expr,), ns)
    _STUBS[key] = c
    return c


def build(term):
    """term (no variables) -> real stub expression"""
    _, cls, lit, args = term
    return stub_class(cls, len(args))(lit or 0, *[build(a) for a in args])


def render(e):
    deps = e.dependencies()
    head = f"{type(e)._cls_id}.{e.operands[0]}"
    return head if not deps else head + "(" + ",".join(render(d) for d in deps) + ")"


def _match(pat, e, env):
    if pat[0] == "var":
        b = env.get(pat[1])
        if b is None:
            env = dict(env)
            env[pat[1]] = e
            return env
        return env if b._name == e._name else None
    _, cls, lit, args = pat
    if getattr(type(e), "_cls_id", None) != cls or (lit is not None and e.operands[0] != lit):
        return None
    deps = e.dependencies()
    if len(deps) != len(args):
        return None
    for p, d in zip(args, deps):
        env = _match(p, d, env)
        if env is None:
            return None
    return env


def _inst(t, env):
    if t[0] == "var":
        return env.get(t[1])
    _, cls, lit, args = t
    built = [_inst(a, env) for a in args]
    if any(b is None for b in built):
        return None
    return stub_class(cls, len(args))(lit or 0, *built)


def _apply_down(rules, e):
    for pat, tmpl in rules:
        env = _match(pat, e, {})
        if env is not None:
            out = _inst(tmpl, env)
            if out is not None:
                return out
    return None


def _cond(cond, child, dependents):
    if cond == "any":
        return True
    refs = dependents[child._name] if dependents is not None and child._name in dependents else []
    live = [r() for r in refs]
    live = [x for x in live if x is not None]
    if cond.startswith("ndle"):
        return len({x._name for x in live}) <= int(cond[4:])
    if cond.startswith("nreq"):
        return len(refs) == int(cond[4:])
    if cond.startswith("all"):
        return all(type(x)._cls_id == int(cond[3:]) for x in live)
    raise ValueError(cond)


def _apply_up(rules, child, parent, dependents):
    for cp, pp, cond, tmpl in rules:
        env = _match(cp, child, {})
        if env is None:
            continue
        env = _match(pp, parent, env)
        if env is None:
            continue
        if not _cond(cond, child, dependents):
            continue
        out = _inst(tmpl, env)
        if out is not None:
            return out
    return None


BUDGET = 96  # rule calls allowed to the real driver
FUEL = BUDGET + 16  # every unit of model fuel is consumed by at least one rule call: the model never gives up first

STAGE_NAMES = ["logical", "simplified-logical", "tuned-logical", "physical", "simplified-physical", "fused"]


def run_real(verb, table_text, tree_text, stage=5):
    """run the REAL driver on stub classes; -> protocol answer"""
    from dask_expr._core import collect_dependents
    from dask_expr._expr import optimize_until

    _State.table = parse_table(table_text)
    _State.keep = []
    _State.trace = []
    _State.budget = 10**9
    e = build(parse_term(tree_text))
    _State.calls = 0
    _State.budget = BUDGET
    old = sys.getrecursionlimit()
    sys.setrecursionlimit(20000)
    try:
        if verb == "rewrite":
            return "OK " + render(e.rewrite(kind="tune"))
        if verb == "simplify_once":
            out = e.simplify_once(dependents=collect_dependents(e), simplified={})
            return "OK " + render(out) + " T=" + ("|".join(_State.trace) or "-")
        if verb == "simplify":
            out = e.simplify()
            return "OK " + render(out) + " T=" + ("|".join(_State.trace) or "-")
        if verb == "lower_once":
            return "OK " + render(e.lower_once())
        if verb == "lower_completely":
            return "OK " + render(e.lower_completely())
        if verb == "optimize":
            out = optimize_until(e, STAGE_NAMES[stage])
            return "OK " + render(out) + " T=" + ("|".join(_State.trace) or "-")
        raise ValueError(verb)
    except _Budget:
        return "ERR fuel"
    except RecursionError:
        return "ERR fuel"
    except RuntimeError as ex:
        if "Optimizer does not converge" in str(ex):
            return "ERR nonconverge"
        return f"EXC RuntimeError {str(ex)[:80]}"
    except Exception as ex:  # noqa: BLE001  a driver that breaks on stub classes is a disagreement, not a crash
        return f"EXC {type(ex).__name__} {str(ex)[:80]}"
    finally:
        sys.setrecursionlimit(old)
        _State.budget = 10**9


def real_collect(tree_text):
    from dask_expr._core import collect_dependents

    _State.keep = []
    e = build(parse_term(tree_text))
    names = {}
    for n in e.walk():
        names[n._name] = n
    d = collect_dependents(e)
    # the model keeps one insertion-ordered list of pairs; per child the order is what the rules see
    return {render(names[k]): [render(r()) for r in v] for k, v in d.items() if v}


def model_collect_parse(ans):
    out = collections.OrderedDict()
    if ans == "-":
        return {}
    for ent in ans.split(";"):
        c, p = ent.split("<")
        out.setdefault(c, []).append(p)
    return dict(out)


# ---- rule tables

A1 = "0.*($0)"  # class 0 with one operand, any literal
FIXED_TABLES = [
    # (name, table)
    ("empty", "-"),
    ("down_unwrap", "d:0.*($0)>$0"),
    ("down_swap_classes", "d:0.0($0)>1.0($0);d:1.0($0)>2.0($0)"),
    ("down_cycle2", "d:0.0($0)>1.0($0);d:1.0($0)>0.0($0)"),  # Optimizer does not converge
    ("down_cycle_leaf", "d:0.0>1.0;d:1.0>0.0"),
    ("down_grow", "d:0.0($0)>0.0(0.0($0))"),  # infinite growth: no convergence, no repeated name
    ("down_leaf_grow", "d:2.0>2.0(2.0)"),
    ("down_binary_dup", "d:0.0($0)>1.0($0,$0)"),
    ("down_binary_swap", "d:1.0($0,$1)>1.1($1,$0)"),
    ("down_binary_swap_cycle", "d:1.0($0,$1)>1.0($1,$0)"),
    ("up_push", "u:1.*($0)^2.*($9)?any>1.0(2.0($0))"),  # Projection through Elemwise
    ("up_push_then_lower", "u:1.*($0)^2.*($9)?any>1.0(2.0($0));l:1.0($0)>$0"),
    ("up_single_consumer", "u:1.*($0)^2.*($9)?ndle1>1.0(2.0($0))"),  # only if the child has one distinct consumer
    ("up_exact_entries1", "u:1.*($0)^2.*($9)?nreq1>1.0(2.0($0))"),  # sees the bandaid appends
    ("up_exact_entries2", "u:1.*($0)^2.*($9)?nreq2>1.0(2.0($0))"),
    ("up_exact_entries3_leaf", "u:0.0^1.*($9)?nreq3>2.1(0.0)"),
    ("up_all_consumers_cls2", "u:1.*($0)^2.*($9)?all2>1.0(2.0($0))"),
    ("up_second_child", "u:0.0^1.0($0,$1)?any>2.0($0)"),  # fires for whichever operand is the leaf 0.0 first
    ("up_binary_parent", "u:1.0($0)^2.0($8,$9)?any>2.1($0,$9)"),
    ("up_and_down_fight", "u:1.0($0)^2.0($9)?any>0.0($0);d:0.0($0)>2.0(1.0($0))"),  # up undoes down: cycle
    ("up_returns_parent", "u:1.0($0)^2.0($9)?any>2.0(1.0($0))"),  # output == parent: must not count as a change
    ("down_returns_self", "d:0.0($0)>0.0($0);d:0.0($0)>1.0($0)"),  # first rule returns self: second never tried
    ("up_shared", "u:0.*^1.*($9)?ndle1>2.0;u:0.*^2.*($9)?ndle1>1.1"),
    ("down_then_up", "d:2.0($0)>2.1($0);u:1.*($0)^2.1($9)?any>1.0(2.1($0))"),
    ("tune_down", "td:0.0($0)>1.0($0)"),
    ("tune_up_push", "tu:1.*($0)^2.*($9)>1.0(2.0($0))"),
    ("tune_cycle", "td:0.0>1.0;td:1.0>0.0"),  # rewrite() never returns
    ("tune_up_restart", "tu:0.0^1.0($9)>2.0;td:2.0>2.1"),
    ("tune_up_restart_down", "tu:0.*^1.*($9)>2.0(0.1);td:2.0($0)>2.1($0)"),  # the output of an up rule is rewritten from the top again
    ("tune_up_restart_up", "tu:1.0($0)^2.0($9)>0.0($0);tu:0.0^0.0($9)>1.1"),
    ("tune_children_then_parent", "td:0.0>0.1;tu:0.1^1.0($9)>2.0(0.1)"),
    ("lower_chain", "l:0.0($0)>1.0($0);l:1.0($0)>2.0($0)"),
    ("lower_output_children", "l:0.0($0)>1.0(0.1($0));l:0.1($0)>2.0($0)"),
    ("lower_grow", "l:0.0>0.0(0.0)"),  # lower_completely never returns
    ("lower_cycle", "l:0.0>1.0;l:1.0>0.0"),
    ("lower_dup", "l:0.0($0)>1.0($0,$0)"),
    ("pipeline", "u:1.*($0)^2.*($9)?any>1.0(2.0($0));td:1.0($0)>1.1($0);l:2.0($0)>2.1($0);d:2.1(2.1($0))>2.1($0)"),
    ("pipeline_deps", "u:0.*^1.*($9)?ndle1>1.1(0.1);tu:0.1^1.1($9)>2.0(0.0);l:2.0($0)>2.1($0);u:0.0^2.1($9)?nreq2>0.1"),
    ("nonlinear_pattern", "d:1.0($0,$0)>0.0($0)"),  # fires only for a shared operand
    ("cache_visible", "u:0.0^1.0($9)?any>1.1(0.0);u:0.0^2.0($8,$9)?nreq2>2.1($8,$9)"),
    # a shared sub-expression is simplified once: the second visit must come from the `simplified` cache
    # (a recomputation would see one more bandaid entry and decide differently)
    ("cache_hit_shared_nreq1", "u:0.0^1.0($9)?nreq1>1.1(0.0)"),
    ("cache_hit_shared_nreq2", "u:0.*^1.*($9)?nreq2>2.0(0.0)"),
    ("cache_hit_shared_ndle", "u:0.*^1.*($9)?nreq1>1.1(0.1);u:0.*^2.*($9)?ndle1>2.1(0.1)"),
    ("cache_hit_binary", "u:0.0^1.0($8,$9)?nreq2>2.0($8)"),
]


def _rand_term(rng, depth, nvars, is_pat):
    r = rng.random()
    if nvars and (depth == 0 or r < 0.35):
        return f"${rng.randrange(nvars)}"
    cls = rng.randrange(3)
    lit = "*" if (is_pat and rng.random() < 0.3) else str(rng.randrange(2))
    if depth == 0 or r > 0.8:
        return f"{cls}.{lit}"
    ar = rng.choice([1, 1, 2])
    return f"{cls}.{lit}(" + ",".join(_rand_term(rng, depth - 1, nvars, is_pat) for _ in range(ar)) + ")"


def _rand_pat(rng, top_arity=None):
    cls = rng.randrange(3)
    lit = "*" if rng.random() < 0.4 else str(rng.randrange(2))
    ar = rng.choice([0, 1, 1, 2]) if top_arity is None else top_arity
    if ar == 0:
        return f"{cls}.{lit}", 0
    return f"{cls}.{lit}(" + ",".join(f"${i}" for i in range(ar)) + ")", ar


def random_table(rng):
    ents = []
    for _ in range(rng.choice([1, 2, 2, 3, 4])):
        kind = rng.choice(["d", "d", "u", "u", "u", "td", "tu", "l", "l"])
        if kind in ("d", "td", "l"):
            pat, nv = _rand_pat(rng)
            ents.append(f"{kind}:{pat}>{_rand_term(rng, 2, nv, False)}")
        else:
            cpat, nv = _rand_pat(rng)
            ar = rng.choice([1, 1, 2])
            pcls = rng.randrange(3)
            plit = "*" if rng.random() < 0.5 else str(rng.randrange(2))
            ppat = f"{pcls}.{plit}(" + ",".join(f"${8 + i}" for i in range(ar)) + ")"
            cond = rng.choice(["any", "any", "ndle1", "ndle2", "nreq1", "nreq2", "nreq3", f"all{rng.randrange(3)}"]) if kind == "u" else None
            # template over the child's variables and the parent's operand variables
            tm = _rand_term(rng, 2, 0, False) if rng.random() < 0.2 else _mix_template(rng, nv, ar)
            ents.append(f"{kind}:{cpat}^{ppat}" + (f"?{cond}" if cond else "") + f">{tm}")
    return ";".join(ents)


def _mix_template(rng, nv, par):
    vars_ = [f"${i}" for i in range(nv)] + [f"${8 + i}" for i in range(par)]

    def go(depth):
        r = rng.random()
        if depth == 0 or r < 0.4:
            return rng.choice(vars_) if vars_ and rng.random() < 0.8 else f"{rng.randrange(3)}.{rng.randrange(2)}"
        ar = rng.choice([1, 1, 2])
        return f"{rng.randrange(3)}.{rng.randrange(2)}(" + ",".join(go(depth - 1) for _ in range(ar)) + ")"

    return go(2)


# ---- trees


def shapes(n):
    """all shapes of trees with n nodes and arity <= 2, as nested tuples"""
    if n == 1:
        return [()]
    out = []
    for s in shapes(n - 1):
        out.append((s,))
    for k in range(1, n - 1):
        for a in shapes(k):
            for b in shapes(n - 1 - k):
                out.append((a, b))
    return out


def label(shape, labels):
    """assign (cls, lit) labels in preorder; -> term text"""
    it = iter(labels)

    def go(s):
        c, l = next(it)
        head = f"{c}.{l}"
        return head if not s else head + "(" + ",".join(go(x) for x in s) + ")"

    return go(shape)


def all_trees(max_nodes, lits=(0,)):
    labs = [(c, l) for c in range(3) for l in lits]
    for n in range(1, max_nodes + 1):
        for s in shapes(n):
            for lab in itertools.product(labs, repeat=n):
                yield label(s, lab)


def shared_trees(max_sub):
    """trees in which one sub-expression has two consumers: c(S, S) and c(S, d(S))"""
    out = []
    for sub in all_trees(max_sub):
        for c in range(3):
            out.append(f"{c}.0({sub},{sub})")
            for d in range(3):
                out.append(f"{c}.0({sub},{d}.0({sub}))")
    return out


def random_tree(rng, n, lits=(0, 1)):
    s = rng.choice(shapes(n))
    return label(s, [(rng.randrange(3), rng.choice(lits)) for _ in range(n)])


VERBS = ["rewrite", "simplify_once", "simplify", "lower_once", "lower_completely", "optimize"]


def _verbs_for(table):
    """drivers that can see a rule of this table (the others would be the identity)"""
    kinds = {e.split(":")[0] for e in table.split(";")} if table != "-" else set()
    vs = []
    if kinds & {"td", "tu"} or not kinds:
        vs.append("rewrite")
    if kinds & {"d", "u"} or not kinds:
        vs += ["simplify_once", "simplify"]
    if "l" in kinds or not kinds:
        vs += ["lower_once", "lower_completely"]
    vs.append("optimize")
    return vs


def t2_cases(ctx):
    """[(verb, table, tree, stage)]"""
    rng = random.Random(ctx.seed * 7919 + 17)
    tables = [t for _, t in FIXED_TABLES]
    n_rand = 30 if ctx.quick else 120
    tables += [random_table(rng) for _ in range(n_rand)]
    small = list(all_trees(3 if ctx.quick else 4))  # exhaustive: 66 / 390 trees
    five = [t for t in all_trees(5) if t.count(".") == 5] if not ctx.quick else None  # the 2187 five-node trees
    cases = []
    shared = shared_trees(2 if ctx.quick else 3)
    for ti, tab in enumerate(tables):
        trees = list(small)
        if ctx.quick:
            # shared sub-expressions matter where `_simplify_up` reads the dependents / the cache is hit
            trees += shared if ("u:" in tab and ti < len(FIXED_TABLES)) else shared[::6]
            trees += [random_tree(rng, rng.choice([4, 4, 5, 6, 6]), lits=(0, 1) if ti % 2 else (0,)) for _ in range(45)]
        else:
            # every table: all trees <= 4 nodes, the shared-operand trees, seeded 5- and 6-node trees;
            # hand-written tables: all trees <= 5 nodes
            trees = list(small) + shared + [random_tree(rng, 6) for _ in range(600)]
            trees += five if ti < len(FIXED_TABLES) else [random_tree(rng, 5) for _ in range(600)]
        for tree in trees:
            for verb in _verbs_for(tab):
                st = rng.choice([1, 2, 3, 4, 5]) if verb == "optimize" else 5
                cases.append((verb, tab, tree, st))
    return cases, len(tables)


SMALL_FUEL = 10


def fam_drivers(ctx):
    """T2: real drivers on stub classes == model (result tree, firing trace, non-convergence).

    The real driver runs first under a budget of rule calls.  If it finishes, the model is asked with fuel
    > budget (each unit of model fuel is spent on at least one rule call, so the model cannot give up first)
    and must answer exactly the same.  If the real driver exceeds the budget (non-terminating rule system,
    e.g. `rewrite` looping, trees growing for ever) the model is asked with a small fuel only — its work is
    exponential in the fuel on branching trees — and must either run out of fuel too, or, if it finishes, agree
    with the real driver re-run under a 40x budget."""
    global BUDGET
    f = Family("drivers[Expr.rewrite, simplify_once, simplify, lower_once, lower_completely, optimize_until]")
    cases, ntab = t2_cases(ctx)
    real = _pmap(_run_real_case, cases, chunksize=256)
    reqs = [f"driver {v} rules={tab} tree={tree} fuel={SMALL_FUEL if c == 'ERR fuel' else FUEL}" + (f" stage={st}" if v == "optimize" else "")
            for (v, tab, tree, st), c in zip(cases, real)]
    model = drive(reqs)
    code, nontrivial, inputs = [], [], []
    rerun = 0
    outcomes = collections.Counter()
    for (v, tab, tree, st), m, c in zip(cases, model, real):
        if c == "ERR fuel" and m != "ERR fuel":
            old, BUDGET = BUDGET, 40 * BUDGET
            try:
                c = run_real(v, tab, tree, st)
            finally:
                BUDGET = old
            rerun += 1
        code.append(c)
        outcomes[c.split(" ")[0] + (" " + c.split(" ")[1] if c.startswith("ERR") else "")] += 1
        nontrivial.append(c != f"OK {tree}" and not c.startswith(f"OK {tree} "))
        inputs.append({"verb": v, "rules": tab, "tree": tree, "stage": st})
    f.compare(inputs, code, model, nontrivial)
    f.note = (f"{ntab} rule tables ({len(FIXED_TABLES)} hand-written incl. non-terminating and dependents-sensitive ones), all trees <= "
              f"{3 if ctx.quick else 4} nodes over 3 classes + shared-operand trees + seeded trees of 4-6 nodes (thorough: all trees <= 5 "
              f"nodes for the hand-written tables); outcomes {dict(outcomes)} ('ERR fuel' = real driver exceeded {BUDGET} rule "
              f"calls and the model ran out of fuel {SMALL_FUEL}); rerun with larger budget: {rerun}")
    return f


def fam_collect(ctx):
    """T2: collect_dependents (per-child lists in the order the rules see them)."""
    f = Family("collect_dependents")
    rng = random.Random(ctx.seed + 5)
    trees = list(all_trees(4)) + [random_tree(rng, rng.choice([5, 6, 7])) for _ in range(300 if ctx.quick else 5000)]
    model = drive([f"driver collect_dependents tree={t}" for t in trees])
    code = [real_collect(t) for t in trees]
    f.compare(trees, [repr(sorted(c.items())) for c in code], [repr(sorted(model_collect_parse(m).items())) for m in model],
              [bool(c) for c in code])
    f.exhaustive = True
    f.note = "all trees <= 4 nodes over 3 classes (shared sub-expressions arise from equal subtrees), seeded trees up to 7 nodes"
    return f


# =========================================================================== parallel map


_PROC_CAP = {"quick": 4, "thorough": 16}
_TIER = "quick"


def _pmap(fn, items, procs=None, chunksize=8):
    """fork-based parallel map.  Forking this process is expensive (copy-on-write of the interpreter heap) and
    oversubscription makes it worse, so the number of workers is capped per tier and by the idle cores."""
    ncpu = os.cpu_count() or 1
    if procs is None:
        procs = int(os.environ.get("VERIF_PROCS", "0")) or min(_PROC_CAP[_TIER], max(2, ncpu - int(os.getloadavg()[0])))
    procs = min(procs, ncpu, max(1, len(items) // max(chunksize, 1)))
    if procs <= 1 or len(items) < 4:
        return [fn(x) for x in items]
    with mp.get_context("fork").Pool(procs) as pool:
        return pool.map(fn, items, chunksize=chunksize)


def _run_real_case(case):
    v, tab, tree, st = case
    return run_real(v, tab, tree, st)


# =========================================================================== T3: traced firings

RULE_METHODS = ["_simplify_down", "_simplify_up", "_tune_down", "_tune_up", "_lower"]


def all_expr_classes():
    """every live Expr subclass, after importing every dask_expr module"""
    import importlib
    import pkgutil

    import dask_expr
    from dask_expr import _core

    for m in pkgutil.walk_packages(dask_expr.__path__, "dask_expr."):
        if ".tests" in m.name or m.name.endswith("conftest"):
            continue
        try:
            importlib.import_module(m.name)
        except Exception:  # noqa: BLE001  optional dependencies
            pass
    out, stack = [], [_core.Expr]
    seen = set()
    while stack:
        c = stack.pop()
        if c in seen:
            continue
        seen.add(c)
        if not hasattr(c, "_cls_id"):
            out.append(c)
        stack.extend(c.__subclasses__())
    return out


class FiringTracer:
    """decorate the rule methods of all live classes; undo on exit"""

    def __init__(self, keep_examples=False):
        self.counts = collections.Counter()  # (method, defining class, class of self, class of parent) -> calls
        self.fired = collections.Counter()
        self.examples = {}  # key -> (parent_or_self expr, out expr) of the first firings
        self.keep_examples = keep_examples
        self.order = []  # every firing in order (only with keep_examples)
        self._saved = []

    def __enter__(self):
        from dask_expr._core import Expr

        tracer = self
        for cls in all_expr_classes():
            for m in RULE_METHODS:
                if m not in cls.__dict__:
                    continue
                orig = cls.__dict__[m]

                def wrapper(self, *args, _orig=orig, _m=m, _def=cls.__name__):
                    out = _orig(self, *args)
                    parent = args[0] if _m.endswith("_up") else None
                    key = (_m, _def, type(self).__name__, type(parent).__name__ if parent is not None else "")
                    tracer.counts[key] += 1
                    ref = parent if parent is not None else self
                    if isinstance(out, Expr) and out._name != ref._name:
                        tracer.fired[key] += 1
                        if tracer.keep_examples:
                            if len(tracer.examples.setdefault(key, [])) < 2:
                                tracer.examples[key].append((ref, out))
                            if len(tracer.order) < 80:
                                tracer.order.append((key, ref, out))
                    return out

                self._saved.append((cls, m, orig))
                setattr(cls, m, wrapper)
        return self

    def __exit__(self, *a):
        for cls, m, orig in self._saved:
            setattr(cls, m, orig)
        self._saved = []


_C03 = {"Filter"}
_C04 = {"Projection", "Index"}
_C11 = {"Head", "Tail", "Partitions", "BlockwiseHead", "BlockwiseTail", "NFirst", "NLast"}
_C06 = {"Len", "Lengths", "Size", "NBytes"}


def rule_family(key):
    """which property's Lean theorems talk about this rule (by the classes of the firing)"""
    method, defcls, selfcls, parentcls = key
    involved = {defcls, selfcls, parentcls}
    if method in ("_simplify_up", "_simplify_down"):
        if parentcls in _C03 or (method == "_simplify_down" and selfcls in _C03) or (selfcls in _C03 and method == "_simplify_up"):
            return "C03-filters"
        if parentcls in _C04 or (method == "_simplify_down" and selfcls in _C04):
            return "C04-projections"
        if parentcls in _C11 or (selfcls in _C11):
            return "C11-head-tail-partitions"
        if parentcls in _C06 or selfcls in _C06:
            return "C06-len"
    if method == "_lower":
        if selfcls in _C11:
            return "C11-head-tail-partitions"
        if any("Shuffle" in c or c == "RearrangeByColumn" for c in involved):
            return "C12-shuffle-lowering"
        if any("Repartition" in c for c in involved):
            return "C13-repartition-lowering"
    return "unmodelled"


def _fmt_key(key):
    method, defcls, selfcls, parentcls = key
    s = f"{defcls}.{method}"
    if selfcls != defcls:
        s += f"<{selfcls}>"
    if parentcls:
        s += f"[{parentcls}]"
    return s


# =========================================================================== the vetted program space

_EXTRA = None


def extra_programs():
    """C01-specific must-run programs outside harness/programs.py (oracle = the unoptimized plan, so
    they need not run on pandas): shapes of defects fixed during the project and rule interactions."""
    global _EXTRA
    if _EXTRA is not None:
        return _EXTRA
    P = programs.Program

    def mk(name, fn, unordered=False, noindex=False, order_ok=True, fam=("extra",)):
        return P("x:" + name, fn, unordered, fam, 2, noindex, False, order_ok)

    L = lambda t: t["L"]  # noqa: E731
    R = lambda t: t["R"]  # noqa: E731
    def arr_unsorted(t):
        import dask_expr as dx
        import numpy as np

        # a reader whose own column order is not the sorted order of its labels (seeded change C01-m4)
        return dx.from_array(np.arange(36).reshape(12, 3) * np.array([1, 10, 100]), chunksize=5, columns=["c", "a", "b"])

    def ts(t):
        import dask_expr as dx
        import numpy as np
        import pandas as pd

        pdf = pd.DataFrame({"a": np.arange(48), "b": np.arange(48) % 5}, index=pd.date_range("2000-01-01", periods=48, freq="h"))
        return dx.from_pandas(pdf, npartitions=4)

    out = [
        mk("resample_partitions", lambda t: ts(t).a.resample("3h").sum().partitions[[2, 0]]),  # D113
        mk("resample_tail", lambda t: ts(t).b.resample("6h").mean().tail(2, compute=False)),
        mk("from_array_unsorted_sel2", lambda t: arr_unsorted(t)[["c", "a"]]),
        mk("from_array_unsorted_sel2_add", lambda t: (arr_unsorted(t) + 1)[["b", "c"]]),
        mk("from_array_unsorted_sel_sum", lambda t: arr_unsorted(t)[["c", "b"]].sum()),
        mk("bcast_add_head", lambda t: (L(t).a + L(t).a.sum()).head(5, compute=False)),  # D2
        mk("bcast_add_head_all", lambda t: (L(t).a + L(t).a.sum()).head(5, npartitions=-1, compute=False)),
        mk("elemwise_head_np2", lambda t: (L(t) + 1).head(7, npartitions=2, compute=False)),  # D3
        mk("nested_heads", lambda t: L(t).head(7, npartitions=2, compute=False).head(6, compute=False)),  # D3b
        mk("nlargest_col", lambda t: L(t).nlargest(3, "b")["a"], unordered=True),  # D23
        mk("nsmallest_cols", lambda t: L(t).nsmallest(3, "b")[["a"]], unordered=True),
        mk("sort_head_col", lambda t: L(t).sort_values(["b", "a"]).head(3, compute=False)["a"]),
        mk("sort_tail_col", lambda t: L(t).sort_values(["b", "a"]).tail(3, compute=False)[["a"]]),
        mk("rename_twice_col", lambda t: L(t).rename(columns={"a": "A"}).rename(columns={"a": "A"})["A"]),  # D21
        mk("rename_missing_key", lambda t: L(t).rename(columns={"zzz": "b2", "a": "A"})[["A"]]),
        mk("setindex_prefix_col", lambda t: L(t).set_index("a").add_prefix("p_")["p_b"], unordered=True),  # D24
        mk("reset2_level0", lambda t: L(t).reset_index().reset_index()["level_0"], noindex=True),  # D25
        mk("dropna_groupby", lambda t: L(t).dropna(subset=["c"]).groupby("b").sum(), unordered=True),  # D17
        mk("shuffle_tail", lambda t: L(t).shuffle("b", shuffle_method="tasks").tail(2, compute=False), order_ok=False),  # D22
        mk("shuffle_tail_count", lambda t: L(t).shuffle("b", shuffle_method="tasks").tail(2, compute=False).count()),
        mk("merge_sfx_both", lambda t: L(t).merge(R(t), on="b")[["c_x", "c_y"]], unordered=True, noindex=True),  # D1
        mk("merge_sfx_one", lambda t: L(t).merge(R(t), on="b")["c_y"], unordered=True, noindex=True),
        mk("two_shifts", lambda t: L(t).a.shift(1) + L(t).a.shift(2)),  # D7
        mk("filter_shared_pred", lambda t: (lambda x: x[x.a > 2][["b"]])(L(t).assign(z=L(t).a + 1))),
        mk("filter_then_proj_two_consumers", lambda t: (lambda x: x[x.a > 2].b + x.b.sum())(L(t))),
        mk("filter_after_merge_proj", lambda t: (lambda m: m[m.a > 2][["d"]])(L(t).merge(R(t), on="b")), unordered=True, noindex=True),
        mk("proj_assign_overwrite", lambda t: L(t).assign(a=L(t).b + 1)[["a", "c"]]),
        mk("len_filter_assign", lambda t: _len_expr(L(t).assign(z=L(t).a * 2)[["z", "b"]])),
        mk("len_merge", lambda t: _len_expr(L(t).merge(R(t), on="b"))),
        mk("groupby_proj_filter", lambda t: (lambda x: x[x.b > 0].groupby("b").a.sum())(L(t)), unordered=True),
        mk("concat_filter", lambda t: (lambda x: x[x.b > 1][["c"]])(programs._concat([L(t), R(t)])), noindex=False),
        mk("repartition_head", lambda t: L(t).repartition(npartitions=2).head(5, npartitions=-1, compute=False)),
        mk("partitions_proj", lambda t: (L(t) + 1).partitions[[1]][["a"]]),
        mk("index_filter", lambda t: (lambda x: x[x.a > 3].index)(L(t))),
        mk("setindex_filter_col", lambda t: (lambda x: x[x.b > 1]["c"])(L(t).set_index("a")), unordered=True),
        mk("sortvalues_filter", lambda t: (lambda x: x[x.a > 2])(L(t).sort_values("a", ascending=False))),
        mk("astype_filter", lambda t: (lambda x: x[x.a > 2.5])(L(t).astype({"a": "float64"}))),
        mk("fillna_filter_isna", lambda t: (lambda x: x[x.c == 0])(L(t).fillna(0))),
        mk("dropdup_proj", lambda t: L(t).drop_duplicates(subset=["b"])[["b"]], unordered=True),
        mk("valuecounts_filter", lambda t: (lambda x: x[x.b > 0].b.value_counts())(L(t)), unordered=True),
        # shapes of the defects fixed later in the project (D8, D9, D18, D27, D29, D31, D32, D33)
        mk("astype_int_filter", lambda t: (lambda x: x[x.a > 0])(_own(e2e.T_neg(), [0, 3, 6, 8]).astype("int64"))),
        mk("halves_astype_filter", lambda t: (lambda x: x[x.a > 0])((L(t)[["a", "b"]] / 2).astype("int64"))),
        mk("leftmerge_nosuffix_filter_right", lambda t: (lambda m: m[m.c > 101])(L(t).merge(R(t), on="b", how="left", suffixes=("_x", ""))),
           unordered=True, noindex=True),
        mk("merge_or_factored_right", lambda t: L(t).merge(
            (lambda r: r[((r.c > 100) & (r.d > 20)) | ((r.c > 100) & (r.d < 20))])(R(t)), on="b"), unordered=True, noindex=True),
        mk("merge_or_factored_left", lambda t: (lambda l: l[((l.a > 1) & (l.b == 1)) | ((l.a > 1) & (l.b == 3))])(L(t)).merge(R(t), on="b"),
           unordered=True, noindex=True),
        mk("resetindex_compound_filter", lambda t: (lambda x: x[(x["index"] > 2) & (x.a > 1)])(L(t).reset_index()), noindex=True),
        mk("series_resetindex_compound_filter", lambda t: (lambda x: x[(x["index"] > 2) & (x.a > 1)])(L(t).a.reset_index()), noindex=True),
        mk("concat_disjoint_proj", lambda t: programs._concat([L(t)[["a", "b"]], R(t)[["c", "d"]]])[["a"]]),
        mk("add_repartitioned_proj", lambda t: (L(t)[["a", "b"]] + _own(e2e.T_int(), [0, 8])[["a", "b"]])[["a"]]),
        mk("add_repartitioned_col", lambda t: (L(t)[["a", "b"]] + _own(e2e.T_int(), [0, 5, 8])[["a", "b"]])["a"]),
        mk("astype_prefix_label", lambda t: L(t).assign(ab=L(t).a + 1).astype({"a": "float64"})["ab"]),
        mk("parquet_arrow_ne", lambda t: (lambda r: r[r.c != 1.0])(_parquet()), noindex=True),
        mk("parquet_arrow_ne_or", lambda t: (lambda r: r[(r.c != 1.0) | (r.b == 2)][["a", "c"]])(_parquet()), noindex=True),
        mk("parquet_arrow_gt_proj", lambda t: (lambda r: r[r.a > 3][["b"]])(_parquet()), noindex=True),
        # a selection that can still be narrowed above an already LOWERED concat in the second simplify pass (D110)
        mk("nested_inner_concat_filter", lambda t: (lambda r: (lambda z: z[z.a > 3])(programs._concat(
            [L(t).merge(programs._concat([L(t).merge(r, on="b"), r], join="inner"), on="b"), L(t)], join="inner")))(R(t).rename(columns={"c": "k"})),
           unordered=True, noindex=True),
        # two same-sized partition selections of ONE from_pandas source with unknown divisions (rows per partition 3,3,2):
        # sizes / lengths are answered from the reader's metadata for each selection separately
        mk("two_selection_sizes_unsorted", lambda t: (lambda d: d.partitions[0].a.size + d.partitions[2].a.size)(_unsorted_source())),
        mk("two_selection_lens_unsorted", lambda t: (lambda d: _len_expr(d.partitions[[0]][["b"]]) + _len_expr(d.partitions[[2]][["b"]]))(_unsorted_source())),
        mk("selection_size_minus_whole", lambda t: (lambda d: d.a.size - d.partitions[[2, 1]].a.size)(_unsorted_source())),
    ]
    _EXTRA = out
    return out


def _unsorted_source():
    """from_pandas over a non-monotonic index, sort=False: unknown divisions, partitions of 3, 3 and 2 rows"""
    import dask_expr as dx

    pdf = e2e.T_int()
    pdf.index = [5, 3, 7, 1, 6, 0, 4, 2]
    return dx.from_pandas(pdf, npartitions=3, sort=False)


def _own(pdf, cuts):
    """a second collection over a vetted table with its own partitioning (known divisions)"""
    return e2e.frame_from_cuts(pdf, cuts, True)


_PQ = {}


def _parquet_dir():
    """T_int written as a two-file parquet dataset into a scratch directory; created once (by the parent
    process before it forks workers, which inherit the path) and removed by its creator at exit."""
    import atexit
    import shutil
    import tempfile

    import dask_expr as dx

    if "dir" not in _PQ or not os.path.isdir(_PQ["dir"]):
        d = tempfile.mkdtemp(prefix="c01pq")
        creator = os.getpid()

        def _cleanup():
            if os.getpid() == creator:
                shutil.rmtree(d, True)

        atexit.register(_cleanup)
        dx.from_pandas(e2e.T_int(), npartitions=2).to_parquet(d)
        _PQ["dir"] = d
    return _PQ["dir"]


def _parquet():
    """read back through the arrow filesystem (the reader that accepts pushed-down filters)"""
    import dask_expr as dx

    return dx.read_parquet(_parquet_dir(), filesystem="arrow")


def _len_expr(coll):
    from dask_expr._collection import new_collection
    from dask_expr._reductions import Len

    return new_collection(Len(coll.expr))


_BY_NAME = None
_VALID = {}


def by_name():
    """name -> Program for the whole enumerated space (validity on pandas is checked per program, see
    `is_valid`: running all ~19k programs on pandas costs 20 s and the quick tier needs ~300 of them)"""
    global _BY_NAME
    if _BY_NAME is None:
        _BY_NAME = {p.name: p for p in programs.enumerate_programs(2)}
        for p in extra_programs():
            _BY_NAME[p.name] = p
    return _BY_NAME


def is_valid(p):
    """same criterion as programs.valid_programs(.., "any"): pandas itself runs the program (no MultiIndex result)"""
    import pandas as pd

    if p.name.startswith("x:"):
        return True
    if p.name not in _VALID:
        try:
            r = p.fn(programs.pandas_env())
            _VALID[p.name] = not (isinstance(r, (pd.DataFrame, pd.Series)) and isinstance(r.index, pd.MultiIndex))
        except Exception:  # noqa: BLE001
            _VALID[p.name] = False
    return _VALID[p.name]


_UNARY = {o.name: o for o in programs.UNARY}


def build_query(p, layout):
    """the lazy collection of program p; `len` terminals (python ints in the program space) become a
    lazy Len expression so that their plans can be staged."""
    if p.name == "len" or p.name.endswith("/len"):
        cl, cr, known = plans.LAYOUTS[layout]
        x = programs.dask_env(cl, cr, known)["L"]
        for nm in p.name.split("/")[:-1]:
            x = _UNARY[nm].fn(x)
        return _len_expr(x)
    return plans.build(p, layout)


# programs that must always run: shapes of the defects D1, D2, D3, D7, D17, D21-D25 and the delicate rule
# interactions (shared sub-expressions, joins, filters above renames / casts / resets, heads above shuffles)
MUST = [
    "merge_inner_sfx", "merge_left_sfx", "merge_outer_sfx", "merge_inner_proj", "merge_left_filt", "merge_right_filt_r", "merge_outer_filt",
    "merge_index", "concat", "concat_proj", "concat_axis1", "binop_LL", "binop_filter_other", "where", "two_shifts", "two_diffs_frame",
    "shared_filter_sum", "shared_two_consumers",
    "concat_parts_axis1", "concat_parts_axis0", "add_parts_broadcast", "parts_of_elemwise", "parts_of_shuffle",
    "parts_of_shift", "parts_of_diff_rev", "parts_of_cumsum",
    "sort_b/filt_cum/id", "shuffle_b/filt_cum/id", "set_index_a/filt_cum/id", "sort_a_desc/filt_cum/col0",
    "nested_fused", "nested_fused_deps", "nested_fused_deps3", "upper_first_shared_stage", "stage_first_shared_stage",
    "assign_overwrite_shared", "assign_overwrite_concat", "two_reparts_up", "two_reparts_mixed", "two_reparts_size",
    "filt_a/filt_cum/id", "filt_or/filt_cum/col0", "filt_a/filt_cum/sum",
    "dropna_c/gb_sum", "dropna_c/gb_count", "dropna/gb_agg", "dropna_c/col0", "dropna_c/sum",
    "rename_aA/rename_aA/col0", "rename_aA/col0", "rename_aA/filt_a/col0", "prefix/suffix/col0",
    "set_index_a/prefix/col0", "set_index_a/suffix/col0", "set_index_a/rename_aA/col0", "set_index_a/filt_or/col0",
    "reset_index_keep/reset_index_keep/col0", "reset_index_keep/col0", "reset_index_keep/filt_a/sum",
    "sort_b/head3/col0", "sort_b/tail2/col0", "sort_a_desc/head3/col0", "sort_b/head3/id",
    "shuffle_b/tail2/id", "shuffle_b/tail2/count", "shuffle_b/head3/count", "shuffle_b_disk/tail2/count",
    "shuffle_b/filt_a/col0", "shuffle_b/proj_ab/sum", "shuffle_b_disk/filt_a/sum",
    "add1/head3/id", "add1/head3/col0", "assign_z/head3/col0", "head3/head3/id", "filt_a/head3/id", "head3/filt_a/id",
    "assign_z/shared_sum", "fillna0/shared_sum", "filt_a/shared_sum", "head3/shared_sum", "assign_z/self_add", "filt_or/self_add",
    "assign_a/filt_a/id", "assign_z/filt_and_or/col0", "astype_f/filt_a/id", "astype_f/filt_cne/col0", "fillna0/filt_cnull/id", "fillna0/filt_cne/id",
    "clip/filt_a/id", "abs/filt_a/id", "mappart/filt_a/col0", "mappart/proj_ab/id",
    "cumsum/filt_a/id", "cumsum/head3/id", "shift1/filt_a/id", "diff1/proj_ab/id", "shift1/diff1/self_add",
    "repart2/filt_a/id", "repart5/head3/id", "repart5/proj_c/sum", "repart2/tail2/id",
    "dropdup_b/filt_a/id", "dropdup_b/proj_ab/id", "dropdup_b/col0",
    "filt_a/len", "assign_z/len", "proj_ab/len", "dropna/len", "sort_b/len", "shuffle_b/len", "add1/filt_a/len", "head3/len", "repart5/len",
    "filt_a/index", "assign_z/index", "sort_b/index", "set_index_a/index",
    "gb_slice_sel", "filt_a/gb_slice_sel", "add1/gb_slice_sel",
    "filt_a/vc_last", "assign_z/gb_sum", "filt_or/gb_count", "proj_ab/gb_agg", "rename_aA/gb_sum", "astype_f/gb_sum", "sort_b/gb_sum",
    "filt_a/nunique0", "assign_a/nunique0", "proj_ba/col0_sum", "suffix/max", "prefix/count",
    "reset_index/filt_a/id", "reset_index/proj_ab/sum", "set_index_a/sum", "set_index_a/filt_a/id", "sort_b/filt_a/id", "sort_a_desc/proj_ab/id",
]


# =========================================================================== the C01 oracle

METHODS = ["tasks", "disk"]


def _site(tb_text):
    """innermost dask_expr frame of a traceback: 'file.py:function'"""
    import re

    hits = re.findall(r'File "[^"]*dask_expr/([^"]+)", line \d+, in (\S+)', tb_text)
    hits = [h for h in hits if not h[0].startswith("tests/")]
    return f"{hits[-1][0]}:{hits[-1][1]}" if hits else ""


def _columns_of(x):
    import pandas as pd

    if isinstance(x, pd.DataFrame):
        return ("frame", tuple(str(c) for c in x.columns))
    if isinstance(x, pd.Series):
        return ("series", str(x.name))
    if isinstance(x, pd.Index):
        return ("index", str(x.name))
    return ("scalar",)


def run_case(case):
    """One program x layout x shuffle method: the plan of every optimizer stage computes the same as the
    program lowered without optimization.

    Comparison rule.  `e2e.same(got, want, sort_rows=p.unordered or not p.order_ok, drop_index=p.noindex)`:
    rows are compared as a multiset where dask-expr leaves the order unspecified, index labels are ignored
    where it leaves them unspecified.  Programs that are `plan_dependent` apply an order- or label-sensitive
    operator (cumsum/shift/diff/head/tail/reset_index, drop_duplicates keep-first) after an operator whose row
    order or labels are unspecified (shuffle, set_index, merge, sort with ties): their *values* legitimately
    depend on the plan, so only "both succeed" and "same kind and column labels" are checked for them.
    An optimized plan that raises while the unoptimized one succeeds is a failure; if the unoptimized plan
    raises too (or the query cannot be built) the case is unsupported, not a failure.

    -> {"status": ok|unsupported|fail, "stages": n, "fail": {...}}"""
    import dask

    if "frag" in case:
        return run_frag_case(case)
    p = by_name()[case["program"]]
    layout, method = case.get("layout", 0), case.get("method", "tasks")
    res = {"status": "ok", "stages": 0, "program": p.name}
    with dask.config.set({"dataframe.shuffle.method": method, "scheduler": "sync"}):
        try:
            q = build_query(p, layout)
            expr = q.expr
        except Exception as ex:  # noqa: BLE001
            res.update(status="unsupported", why=f"build: {type(ex).__name__}")
            return res
        try:
            un = expr.lower_completely()
            _, _, parts = plans.execute(un)
            want = plans.finalize(un, parts)
        except Exception as ex:  # noqa: BLE001
            want, un_err = None, f"{type(ex).__name__}: {str(ex)[:120]}"
        else:
            un_err = None
        from dask_expr._expr import optimize_until

        for st in case.get("stages", plans.STAGES):
            try:
                e = optimize_until(expr, st)
                if st in ("simplified-logical", "tuned-logical"):
                    e = e.lower_completely()
                phase = "execute"
                _, _, parts = plans.execute(e)
                got = plans.finalize(e, parts)
            except Exception as ex:  # noqa: BLE001
                if un_err is not None:
                    res.update(status="unsupported", why="both raise: " + un_err[:60])
                    return res
                tb = traceback.format_exc()
                res.update(status="fail", fail={
                    "kind": "raises", "stage": st, "exc": type(ex).__name__, "site": _site(tb),
                    "detail": f"stage {st}: optimized plan raises {type(ex).__name__}: {str(ex)[:200]} (unoptimized plan succeeds)"})
                return res
            res["stages"] += 1
            if un_err is not None:
                continue  # the optimizer rescued a query whose unoptimized plan fails: allowed
            if not plan_dependent(p):
                ok = e2e.same(got, want, sort_rows=p.unordered, drop_index=p.noindex)
            else:
                ok = _columns_of(got) == _columns_of(want)
            if not ok:
                res.update(status="fail", fail={
                    "kind": "differs", "stage": st, "exc": "", "site": "",
                    "detail": f"stage {st}: optimized plan computes\n{e2e.describe(got)}\nunoptimized plan computes\n{e2e.describe(want)}"})
                return res
        if un_err is not None:
            res["status"] = "rescued"
    return res


_UNORDERED_OPS = {o.name for o in programs.UNARY if o.unordered}


def plan_dependent(p):
    """The values (not only the row order) of the program's result legitimately depend on the plan:
      * `order_ok == False` (harness/programs.py): an order-/label-sensitive operator after an operator with
        unspecified row order or labels;
      * `drop_duplicates(subset=…)` (keeps the FIRST row of each key) after an operator with unspecified row
        order: which row survives depends on the order inside the partition (observed with the disk shuffle,
        whose partition order is the order in which the writer tasks happened to run)."""
    if not p.order_ok:
        return True
    chain = p.name.split("/")[:-1]
    for i, nm in enumerate(chain):
        if nm == "dropdup_b" and any(c in _UNORDERED_OPS for c in chain[:i]):
            return True
    return False


def _run_case_safe(case):
    try:
        return run_case(case)
    except Exception:  # noqa: BLE001
        return {"status": "harness-error", "program": case.get("program", case.get("frag")), "why": traceback.format_exc()[-600:], "stages": 0}


_KNOWN_DIVISIONS_ONLY = {"x:add_repartitioned_proj", "x:add_repartitioned_col", "concat_parts_axis1", "concat_parts_axis0",
                         "add_parts_broadcast", "parts_of_elemwise"}  # alignment needs known divisions


def _frag_support_cases(ctx, broken):
    """the hand-written fragment queries always; when the fragment family disagrees, the disagreeing query first and
    seeded random queries of the same generator"""
    frag_broken = [b for b in broken if b.get("kind") == "correspondence" and str(b.get("family", "")).startswith("fragment")]
    cases = []
    for b in frag_broken:
        q = (b.get("first") or {}).get("input") or {}
        if isinstance(q, dict) and q.get("query"):
            cases.append({"frag": q["query"], "stages": plans.STAGES})
    cases += [{"frag": n, "stages": plans.STAGES if (frag_broken or not ctx.quick) else ["simplified-logical", "fused"]}
              for n, _ in frag_fixed_queries()]
    n_rand = (400 if frag_broken else 0) if ctx.quick else 1500
    # depth <= 3: the space that was run completely during development (every failure triaged); at depth 4 the search found
    # a crash of the optimizer itself (StackPartition inherits Concat._simplify_up, reported), see the work-package report
    cases += [{"frag": f"vseed{ctx.seed * 100003 + i}/d{1 + i % 3}", "stages": ["simplified-logical", "fused"]} for i in range(n_rand)]
    return cases


def support_cases(ctx, broken):
    names = by_name()
    must = [n for n in MUST if n in names and is_valid(names[n])] + [p.name for p in extra_programs()]
    cases = _frag_support_cases(ctx, broken)
    nl = len(plans.LAYOUTS)
    if ctx.quick:
        rng = random.Random(ctx.seed * 31 + 1)
        space = [n for n in names if not n.startswith("x:")]
        rng.shuffle(space)
        sel = []
        for n in space:
            if is_valid(names[n]):
                sel.append(n)
            if len(sel) >= (300 if broken else 150):
                break
        for i, n in enumerate(must):
            # both methods and a known-/unknown-divisions layout alternate over the must-run list
            lay = 0 if n in _KNOWN_DIVISIONS_ONLY else (0, 3, 1, 4)[i % 4]
            cases.append({"program": n, "layout": lay, "method": METHODS[i % 2]})
        for i, n in enumerate(sorted(sel)):
            cases.append({"program": n, "layout": i % nl, "method": METHODS[(i // nl) % 2]})
    else:
        # all programs x all layouts, the shuffle method alternating so that every program runs under both
        # methods (3 + 2 layouts); the must-run list under all 10 combinations
        space = [p.name for p in programs.valid_programs(2, "any")]
        mset = set(must)
        for i, n in enumerate(must + [n for n in space if n not in mset]):
            for layout in range(nl):
                for m in (METHODS if n in mset else [METHODS[(i + layout) % 2]]):
                    cases.append({"program": n, "layout": layout, "method": m})
    return cases


def blame(case):
    """for a failing case: the first traced rule firing whose output does not compute the same (multiset of
    rows) as the expression it replaced, both lowered without optimization -> 'Class._method[Parent]' or ''"""
    import dask

    with dask.config.set({"dataframe.shuffle.method": case.get("method", "tasks"), "scheduler": "sync"}):
        try:
            if "frag" in case:
                _frag_sources()
                q = frag_query_by_name(case["frag"])()
            else:
                q = build_query(by_name()[case["program"]], case.get("layout", 0))
        except Exception:  # noqa: BLE001
            return ""
        tr = FiringTracer(keep_examples=True)
        try:
            with tr:
                q.expr.optimize(fuse=True)
        except Exception:  # noqa: BLE001
            pass
        for key, ref, out in tr.order:
            try:
                a = _exec_unoptimized(ref)
            except Exception:  # noqa: BLE001
                continue
            try:
                b = _exec_unoptimized(out)
            except Exception as ex:  # noqa: BLE001
                return f"{_fmt_key(key)} (its output raises {type(ex).__name__})"
            if not e2e.same(b, a, sort_rows=True, drop_index=True):
                return _fmt_key(key)
    return ""


def _signature(r, case):
    f = r["fail"]
    fams = ("fragment",) if "frag" in case else by_name()[case["program"]].families
    try:
        rule = blame(case)
    except Exception:  # noqa: BLE001
        rule = ""
    return {"kind": f["kind"], "stage": f["stage"], "exc": f["exc"], "site": f["site"], "rule": rule,
            "program": case.get("program", "frag:" + str(case.get("frag"))), "families": "/".join(fams)}


def support(ctx, broken):
    sup = Support()
    cases = support_cases(ctx, broken)
    _parquet_dir()  # before forking: the workers share one scratch dataset
    results = _pmap(_run_case_safe, cases, chunksize=4)
    seen_sigs = set()
    for case, r in zip(cases, results):
        sup.count("status:" + r["status"])
        if r["status"] in ("ok", "rescued", "fail"):
            sup.executed += max(r["stages"], 1)
            sup.count("method:" + case.get("method", "tasks"))
        if r["status"] == "harness-error":
            raise RuntimeError("C01 oracle crashed on " + repr(case) + "\n" + r["why"])
        if r["status"] == "fail":
            sig = _signature(r, case)
            key = (sig["kind"], sig["stage"], sig["exc"], sig["site"], sig["rule"], sig["families"])
            if key in seen_sigs and len(sup.failures) >= 12:
                continue
            seen_sigs.add(key)
            sup.failures.append(Failure(sig=sig, case=dict(case), detail=r["fail"]["detail"]))
        elif len(sup.samples) < 3 and r["status"] == "ok":
            sup.samples.append(case)
    # T3 distribution of rule firings (which rule classes the search exercised)
    try:
        dist = traced_firings(ctx, [c["program"] for c in cases if "program" in c][: (260 if ctx.quick else 4000)])
        sup.distribution.update(dist)
    except Exception:  # noqa: BLE001
        sup.distribution["traced_firings_error"] = traceback.format_exc()[-400:]
    return sup


def replay(case):
    r = run_case(case)
    if r["status"] == "fail":
        return Failure(sig=_signature(r, case), case=case, detail=r["fail"]["detail"])
    return None


def _trace_chunk(names):
    import dask

    out_counts, out_fired = collections.Counter(), collections.Counter()
    with FiringTracer() as tr:
        for n in names:
            try:
                with dask.config.set({"dataframe.shuffle.method": "tasks"}):
                    q = build_query(by_name()[n], 0)
                    q.expr.optimize(fuse=True)
            except Exception:  # noqa: BLE001  failures are the oracle's business
                continue
        out_counts.update(tr.counts)
        out_fired.update(tr.fired)
    return dict(out_counts), dict(out_fired)


def traced_firings(ctx, names):
    """T3: run optimize() over the programs with every rule method of every live class wrapped."""
    names = list(dict.fromkeys(names))
    k = 4 if ctx.quick else 16
    chunks = [names[i::k] for i in range(k) if names[i::k]]
    counts, fired = collections.Counter(), collections.Counter()
    for c, f in _pmap(_trace_chunk, chunks, chunksize=1):
        counts.update(c)
        fired.update(f)
    fam = collections.Counter()
    per_rule = collections.Counter()
    for key, n in fired.items():
        fam[rule_family(key)] += n
        per_rule[(rule_family(key), _fmt_key(key))] += n
    total = sum(fired.values())
    out = {
        "rule_calls": sum(counts.values()),
        "rule_firings": total,
        "firings_by_family": dict(fam),
        "unmodelled_rule_firings": {k[1]: n for k, n in sorted(per_rule.items(), key=lambda kv: -kv[1]) if k[0] == "unmodelled"},
        "modelled_rule_firings": {k[1] + " @" + k[0]: n for k, n in sorted(per_rule.items(), key=lambda kv: -kv[1]) if k[0] != "unmodelled"},
        "traced_programs": len(names),
        "wrapped_classes": len(all_expr_classes()),
    }
    return out


def fam_firings(ctx):
    """T3: the hypothesis RulesSound sampled on traced firings of the live rules: for `_simplify_*` firings of
    order-insensitive programs, the rule output and the expression it replaces are both lowered without
    optimization, executed and compared (multiset of rows)."""
    import dask

    f = Family("rule_firings_sound[_simplify_down/_simplify_up of all live classes]")
    names = [n for n in MUST if n in by_name()] + [p.name for p in extra_programs()]
    # x:sort_head_col is the witness of the open finding D47 (SortValues._simplify_up[Head] is knowingly not
    # value-preserving for head(npartitions=1)); it is reported through the support search, not here
    names = [n for n in names if not plan_dependent(by_name()[n]) and n != "x:sort_head_col"][: (70 if ctx.quick else 400)]
    inputs, code, model = [], [], []
    seen = set()
    for n in names:
        p = by_name()[n]
        with dask.config.set({"dataframe.shuffle.method": "tasks"}):
            try:
                q = build_query(p, 0)
                with FiringTracer(keep_examples=True) as tr:
                    q.expr.simplify()
            except Exception:  # noqa: BLE001
                continue
            for key, exs in tr.examples.items():
                if key in seen or key[0] not in ("_simplify_up", "_simplify_down"):
                    continue
                seen.add(key)
                ref, out = exs[0]
                try:
                    a = _exec_unoptimized(ref)
                    b = _exec_unoptimized(out)
                except Exception:  # noqa: BLE001  sub-expressions that cannot run on their own
                    continue
                inputs.append({"rule": _fmt_key(key), "program": n, "family": rule_family(key)})
                code.append("same" if e2e.same(b, a, sort_rows=True, drop_index=True) else
                            f"DIFFERENT: replaced\n{e2e.describe(a)}\nby\n{e2e.describe(b)}")
                model.append("same")
    f.compare(inputs, code, model)
    f.note = "one firing per distinct (rule, class, parent class) seen on the must-run programs; expected = the theorem's hypothesis RulesSound"
    return f


def _exec_unoptimized(expr):
    e = expr.lower_completely()
    _, _, parts = plans.execute(e)
    return plans.finalize(e, parts)


# =========================================================================== T2: the fragment of real classes
#
# DxModel/Fragment.lean instantiates the expression model with real classes (FromPandas, Projection, Abs/Neg/Pos/
# Invert, Binop with a scalar, Binop of two expressions incl. And/Or, Assign, RenameFrame, Filter, Merge, row-wise
# Concat) and defines `fragRules` from the rule functions of Dx.Cols / Dx.Pred.  Here REAL queries over these
# classes are built through the public API, simplified by the REAL `Expr.simplify()`, and input and output are
# abstracted to model trees; the model's `simplify fragRules` on the abstracted input must give exactly the
# abstraction of the real output (classes, operand order, every column list).

FRAG_FUEL = 60
_FRAG_UN = {"Abs": 0, "Neg": 1, "Pos": 2, "Invert": 3}
_FRAG_BIN = {"And": 0, "Or": 1, "Add": 2, "Sub": 3, "GT": 5, "LT": 6, "GE": 7, "LE": 8, "EQ": 9, "NE": 10}
_FRAG_HOW = {"inner": 0, "left": 1, "right": 2, "outer": 3}
_FRAG_CLS = ["FromPandas", "Projection", "Elemwise1", "BinopScalar", "Binop", "Assign", "RenameFrame", "Filter", "Merge", "Concat"]


class OutOfFragment(Exception):
    pass


def frag_enc(sent):
    """sentence (list of words = lists of naturals) -> the literal of the model node (Fragment.lean `encS`)"""
    flat = []
    for w in sent:
        flat += [x + 1 for x in w] + [0]
    n = 0
    for a in reversed(flat):
        n = (1 << a) * (2 * n + 1)
    return n


def frag_dec(n):
    flat = []
    while n:
        a = (n & -n).bit_length() - 1
        flat.append(a)
        n >>= a + 1
    sent, cur = [], []
    for a in flat:
        if a == 0:
            sent.append(cur)
            cur = []
        else:
            cur.append(a - 1)
    if cur:
        sent.append(cur)
    return sent


def _fw(name):
    if not isinstance(name, str):
        raise OutOfFragment(f"label {name!r}")
    return [ord(ch) for ch in name]


class _FragTables:
    """table ids by identity of the pandas object behind a FromPandas"""

    def __init__(self):
        self.ids = {}

    def tid(self, backend):
        return self.ids.setdefault(id(backend._data), len(self.ids))


def frag_abstract(e, reg):
    """real expression -> model tree text `cls.lit(args)`; OutOfFragment for anything the fragment has no class for"""
    from dask_expr import _expr as E
    from dask_expr._concat import Concat
    from dask_expr._merge import Merge
    from dask_expr.io.io import FromPandas

    def node(cls, sent, args):
        head = f"{cls}.{frag_enc(sent)}"
        return head if not args else head + "(" + ",".join(args) + ")"

    t = type(e)
    rec = lambda x: frag_abstract(x, reg)  # noqa: E731
    if t is FromPandas:
        if e.operand("_partitions") is not None or e.operand("_series"):
            raise OutOfFragment("FromPandas partitions/_series")
        full = [c for c in e.operand("frame")._data.columns]
        cols = e.operand("columns")
        sent = [[reg.tid(e.operand("frame"))], [len(full)]] + [_fw(c) for c in full]
        sent += [[0]] if cols is None else [[1]] + [_fw(c) for c in cols]
        return node(0, sent, [])
    if t is E.Projection:
        op = e.operand("columns")
        if isinstance(op, list):
            return node(1, [[1]] + [_fw(c) for c in op], [rec(e.frame)])
        return node(1, [[0], _fw(op)], [rec(e.frame)])
    if t.__name__ in _FRAG_UN and t in (E.Abs, E.Neg, E.Pos, E.Invert):
        return node(2, [[_FRAG_UN[t.__name__]]], [rec(e.frame)])
    if t.__name__ in _FRAG_BIN and getattr(E, t.__name__, None) is t:
        l, r = e.left, e.right
        code = _FRAG_BIN[t.__name__]
        if isinstance(l, E.Expr) and isinstance(r, E.Expr):
            return node(4, [[code]], [rec(l), rec(r)])
        if isinstance(l, E.Expr) and type(r) is int and r >= 0:
            return node(3, [[code], [r]], [rec(l)])
        raise OutOfFragment("Binop operands")
    if t is E.Assign:
        if not all(isinstance(v, E.Expr) for v in e.vals):
            raise OutOfFragment("Assign scalar")
        return node(5, [_fw(k) for k in e.keys], [rec(e.frame)] + [rec(v) for v in e.vals])
    if t is E.RenameFrame:
        m = e.operand("columns")
        if not isinstance(m, dict):
            raise OutOfFragment("rename callable")
        sent = []
        for k, v in m.items():
            sent += [_fw(k), _fw(v)]
        return node(6, sent, [rec(e.frame)])
    if t is E.Filter:
        return node(7, [], [rec(e.frame), rec(e.predicate)])
    if t is Merge:
        if e.left_index or e.right_index or e.operand("indicator") or e.how not in _FRAG_HOW:
            raise OutOfFragment("Merge kind")
        lo = [e.left_on] if isinstance(e.left_on, str) else list(e.left_on)
        ro = [e.right_on] if isinstance(e.right_on, str) else list(e.right_on)
        sent = [[_FRAG_HOW[e.how]], [len(lo)], [len(ro)]] + [_fw(c) for c in lo] + [_fw(c) for c in ro]
        sent += [_fw(e.suffixes[0]), _fw(e.suffixes[1])]
        return node(8, sent, [rec(e.left), rec(e.right)])
    if t is Concat:
        if e.axis != 0 or e.join not in ("outer", "inner") or any(f.ndim != 2 for f in e._frames):
            raise OutOfFragment("Concat kind")
        return node(9, [[1 if e.join == "inner" else 0]], [rec(f) for f in e._frames])
    raise OutOfFragment(t.__name__)


def frag_pretty(text):
    """model tree text -> readable form (for disagreement reports)"""
    def name(w):
        return "".join(chr(x) for x in w)

    def lit(cls, n):
        s = frag_dec(n)
        try:
            if cls == 0:
                k = s[1][0]
                full = [name(w) for w in s[2 : 2 + k]]
                rest = s[2 + k :]
                cols = None if rest == [[0]] else [name(w) for w in rest[1:]]
                return f"T{s[0][0]}{full}" + ("" if cols is None else f"->{cols}")
            if cls == 1:
                return repr(name(s[1])) if s[0] == [0] else str([name(w) for w in s[1:]])
            if cls in (2, 4):
                return f"op{s[0][0]}"
            if cls == 3:
                return f"op{s[0][0]},{s[1][0]}"
            if cls in (5, 6):
                return str([name(w) for w in s])
            if cls == 8:
                nl, nr = s[1][0], s[2][0]
                ws = [name(w) for w in s[3:]]
                return f"how{s[0][0]} on={ws[:nl]}/{ws[nl:nl+nr]} sfx={ws[nl+nr:]}"
            if cls == 9:
                return "inner" if s == [[1]] else "outer"
        except Exception:  # noqa: BLE001
            pass
        return "" if not s else str(s)

    def go(t):
        _, cls, l, args = t
        head = (_FRAG_CLS[cls] if cls < len(_FRAG_CLS) else str(cls)) + "{" + lit(cls, l or 0) + "}"
        return head if not args else head + "(" + ", ".join(go(a) for a in args) + ")"

    try:
        return go(parse_term(text))
    except Exception:  # noqa: BLE001
        return text[:300]


class _KeepAlive:
    """every expression created while the real driver runs stays alive: the weak references of the dependents
    map are modelled as live (TRUSTED), so no rule may see a reference die in the middle of a pass"""

    def __enter__(self):
        from dask_expr import _core

        self.core = _core
        self.orig = _core.Expr.__new__
        keep = self.keep = []
        orig = self.orig

        def _new(cls, *args, **kwargs):
            inst = orig(cls, *args, **kwargs)
            keep.append(inst)
            return inst

        _core.Expr.__new__ = _new
        return self

    def __exit__(self, *a):
        self.core.Expr.__new__ = self.orig
        self.keep = []


# ---- real queries of the fragment


def _frag_sources():
    import dask_expr as dx
    import numpy as np
    import pandas as pd

    if "src" not in _PQ:
        n = 6
        t0 = pd.DataFrame({"a": np.arange(n), "b": [3, 1, 2, 5, 4, 6], "c": [0, 1, 0, 1, 0, 1]})
        t1 = pd.DataFrame({"b": [3, 1, 2, 5, 4, 6], "k": np.arange(n) * 2, "d": [1, 1, 2, 2, 3, 3]})
        t2 = pd.DataFrame({"a": np.arange(n) + 10, "b": [1, 2, 3, 4, 5, 6], "e": [7, 8, 9, 7, 8, 9]})
        _PQ["src"] = [dx.from_pandas(t, npartitions=2) for t in (t0, t1, t2)]
    return _PQ["src"]


def _frag_blocked(e):
    """a Filter above this frame could reach a Filter / Merge through Projections and Assigns (which projection
    push-down may remove): the squash rule / the Merge filter rule could fire — outside the fragment"""
    from dask_expr import _expr as E
    from dask_expr._merge import Merge

    while isinstance(e, (E.Projection, E.Assign)):
        e = e.frame
    return isinstance(e, (E.Filter, Merge))


def _frag_pred(rng, x, shape):
    cols = list(x.columns)
    c = lambda: x[rng.choice(cols)]  # noqa: E731
    p = c() > rng.randrange(0, 4)
    if shape == "and":
        return p & (c() < rng.randrange(2, 9))
    if shape == "or":
        return p | (c() < rng.randrange(2, 9))
    if shape == "or_common":  # (p & q) | (p & r): rewrite_filters factors p out
        return (p & (c() < rng.randrange(2, 9))) | (p & (c() > rng.randrange(0, 4)))
    if shape == "or_absorb":  # (p & q) | p
        return (p & (c() < rng.randrange(2, 9))) | p
    return p


_FRAG_OPS = ["proj", "proj", "abs", "neg", "addk", "assign_new", "assign_over", "assign_two", "assign_base", "rename", "filter",
             "filter_and", "filter_or", "filter_or_common", "filter_or_absorb", "binop_abs", "binop_addk", "binop_proj", "merge",
             "merge_other_key", "concat", "concat_inner", "concat_self", "share2"]


def _frag_sub(rng, cols, allow_empty=False):
    k = rng.randrange(0 if allow_empty else 1, len(cols) + 1)
    sub = rng.sample(cols, k)
    if rng.random() < 0.4:
        sub = [c for c in cols if c in sub]  # input order: the parent projection can be dropped
    return sub


def frag_apply(rng, op, x, depth, mk):
    """one operator of the fragment on the frame collection x; `mk(depth)` builds an independent frame"""
    import dask_expr as dx

    cols = list(x.columns)
    if op == "proj":
        return x[_frag_sub(rng, cols)]
    if op == "abs":
        return x.abs()
    if op == "neg":
        return -x
    if op == "addk":
        return x + rng.randrange(1, 4)
    if op == "assign_new":
        return x.assign(z=x[rng.choice(cols)] + 1)
    if op == "assign_over":
        return x.assign(**{rng.choice(cols): x[rng.choice(cols)] + 2})
    if op == "assign_two":
        return x.assign(z=x[rng.choice(cols)] + 1, y=x[rng.choice(cols)].abs())
    if op == "assign_base":  # the value reads the source below x, not x itself
        base = [s for s in _frag_sources() if any(n._name == s.expr._name for n in x.expr.walk())]
        if not base:
            return x.assign(z=x[cols[0]] + 1)
        b = base[0]
        return x.assign(w=b[rng.choice(list(b.columns))] + 1)
    if op == "rename":
        c = rng.choice(cols)
        m = {c: c.upper() + "1"}
        if rng.random() < 0.3:
            m["nope"] = rng.choice([x for x in cols if x != c] or ["Q"])  # a key that is not a column, renamed to a label that exists (D21)
        return x.rename(columns=m)
    if op.startswith("filter"):
        if _frag_blocked(x.expr):
            return x.abs()
        shape = op[7:] if len(op) > 6 else "plain"
        return x[_frag_pred(rng, x, shape)]
    if op == "binop_abs":
        return x + x.abs()
    if op == "binop_addk":
        return (x + 1) - x
    if op == "binop_proj":
        sub = _frag_sub(rng, cols)
        return x[sub] + x[sub].abs()
    if op in ("merge", "merge_other_key"):
        y = mk(max(depth - 2, 0))
        common = [c for c in cols if c in list(y.columns)]
        if not common:
            return x.abs()
        how = rng.choice(["inner", "left", "right", "outer"])
        if op == "merge" or len(cols) < 2:
            return x.merge(y, on=rng.choice(common), how=how)
        return x.merge(y, on=common[:2], how=how) if len(common) > 1 else x.merge(y, on=common[0], how=how, suffixes=("_l", "_r"))
    if op.startswith("concat"):
        y = x[_frag_sub(rng, cols)] if op == "concat_self" else mk(max(depth - 2, 0))
        return dx.concat([x, y], join="inner" if op == "concat_inner" else "outer")
    if op == "share2":  # x consumed twice by different operators
        sub = _frag_sub(rng, cols)
        return x[sub] + (-x)[sub]
    raise ValueError(op)


def frag_random_query(rng, depth, ops=None):
    srcs = _frag_sources()
    ops = ops or _FRAG_OPS

    def mk(d):
        x = rng.choice(srcs)
        for _ in range(d):
            x = frag_apply(rng, rng.choice(ops), x, d, mk)
        return x

    x = mk(depth)
    r = rng.random()
    cols = list(x.columns)
    if r < 0.45:
        return x[_frag_sub(rng, cols)]
    if r < 0.6:
        return x[rng.choice(cols)]
    return x


def frag_fixed_queries():
    """hand-written queries: every rule of the fragment, shared sub-expressions, the shapes of fixed defects"""
    import dask_expr as dx

    df, d1, d2 = _frag_sources()
    return [
        ("proj_abs", lambda: df.abs()[["b"]]),
        ("proj_abs_scalar", lambda: df.abs()["b"]),
        ("proj_neg_reorder", lambda: (-df)[["c", "a"]]),
        ("proj_addk", lambda: (df + 1)[["b", "a"]]),
        ("proj_proj", lambda: df[["a", "b", "c"]][["b", "a"]]["a"]),
        ("proj_identity", lambda: df[["a", "b", "c"]]),
        ("proj_assign", lambda: df.assign(z=df.a + 1)[["z", "b"]]),
        ("proj_assign_gone", lambda: df.assign(z=df.a + 1)[["b"]]),
        ("proj_assign_over", lambda: df.assign(a=df.b + 1)[["a", "c"]]),
        ("assign_nested", lambda: df.assign(z=df.a + 1).assign(y=df.b + 1)[["y"]]),
        ("assign_nested_uses_created", lambda: (lambda x: x.assign(y=x.z + 1))(df.assign(z=df.a + 1))[["y", "a"]]),
        ("rename", lambda: df.rename(columns={"a": "A"})[["A", "c"]]),
        ("rename_swap", lambda: df.rename(columns={"a": "b", "b": "a"})[["a"]]),
        ("rename_missing_key", lambda: df.rename(columns={"zz": "b2", "a": "A"})[["A"]]),
        ("rename_missing_key_to_existing", lambda: df.rename(columns={"zz": "b", "a": "A"})[["b", "A"]]),
        ("rename_twice", lambda: df.rename(columns={"a": "A"}).rename(columns={"a": "A"})["A"]),
        ("filter_proj", lambda: df[df.a > 2][["b"]]),
        ("filter_proj_keep", lambda: df[df.a > 2][["c", "b"]]),
        ("filter_scalar", lambda: df[df.a > 2]["b"]),
        ("filter_or_common", lambda: df[((df.a > 2) & (df.b > 1)) | ((df.a > 2) & (df.c > 0))][["b"]]),
        ("filter_or_absorb", lambda: df[((df.a > 2) & (df.b > 1)) | (df.a > 2)]),
        ("filter_or_in_binop", lambda: (lambda f: f + f.abs())(df[((df.a > 2) & (df.b > 1)) | ((df.a > 2) & (df.c > 0))])),
        ("filter_or_second_operand", lambda: dx.concat([df, df[((df.a > 2) & (df.b > 1)) | ((df.a > 2) & (df.c > 0))]])),
        ("binop", lambda: (df + df.abs())[["a"]]),
        ("binop_scalar_parent", lambda: (df + df.abs())["a"]),
        ("binop_series", lambda: df.assign(z=df.a + df.b)[["z"]]),
        ("merge", lambda: df.merge(d1, on="b")[["a", "d"]]),
        ("merge_sfx_both", lambda: df.merge(d2, on="b")[["a_x", "a_y"]]),
        ("merge_sfx_one", lambda: df.merge(d2, on="b", how="left")["a_y"]),
        ("merge_two_keys", lambda: df.merge(d2, on=["a", "b"], how="outer")[["e"]]),
        ("merge_abs", lambda: df.merge(d1, on="b").abs()[["k"]]),
        ("concat", lambda: dx.concat([df, d1])[["b"]]),
        ("concat_disjoint", lambda: dx.concat([df[["a", "b"]], d1[["k", "d"]]])[["a"]]),
        ("concat_inner", lambda: dx.concat([df, d2], join="inner")[["b"]]),
        ("concat_keep", lambda: dx.concat([df, d1])[["d", "a"]]),
        ("concat_scalar", lambda: dx.concat([df, d1])["b"]),
        ("shared_two_consumers", lambda: (lambda x: x[["a"]] + x[["a"]].abs())(df.assign(z=df.b + 1))),
        ("shared_filter_pred", lambda: (lambda x: x[x.a > 2][["b"]])(df.assign(z=df.a + 1))),
        ("shared_source_three", lambda: df.assign(z=df.a + 1, y=df.b.abs())[["z", "y", "c"]]),
        ("empty_projection", lambda: df.assign(z=df.a + 1)[["z"]]),
        ("assign_dup_keys_order", lambda: df.assign(z=df.a + 1, y=df.b + 1).assign(z=df.a + 5)),
        ("assign_dup_keys_proj", lambda: df.assign(z=df.a + 1, y=df.b + 1).assign(z=df.a + 5)[["y", "z"]]),
        ("assign_triple", lambda: df.assign(z=df.a + 1).assign(y=df.b + 1).assign(w=df.c + 1)[["w", "z", "a"]]),
        ("assign_over_then_proj_other", lambda: df.assign(a=df.b + 1, z=df.c + 1)[["b", "z"]]),
        ("rename_then_assign", lambda: (lambda x: x.assign(z=x.A + 1))(df.rename(columns={"a": "A"}))[["z", "c"]]),
        ("filter_and_proj_all", lambda: df[(df.a > 1) & (df.b < 5)][["a", "b", "c"]]),
        ("filter_assign_value", lambda: (lambda x: x.assign(z=x.a + 1)[["z"]])(df[df.b > 1])),
        ("merge_left_on_right_on", lambda: df.merge(d1.rename(columns={"b": "bb"}), left_on="b", right_on="bb")[["a", "k", "bb"]]),
        ("merge_self_suffix", lambda: df.merge(df.abs(), on="a")[["b_x", "c_y"]]),
        ("concat_three", lambda: dx.concat([df, d1, d2])[["e", "b"]]),
        ("concat_of_filters", lambda: dx.concat([df[df.a > 1], d2[d2.e > 7]])[["a"]]),
        ("binop_of_merges", lambda: (lambda m: m[["a", "d"]] + m[["a", "d"]].abs())(df.merge(d1, on="b"))),
    ]


def _frag_schema_of(e):
    try:
        return f"cols={','.join(e.columns) if e.columns else '-'} ser={1 if e.ndim == 1 else 0}"
    except Exception:  # noqa: BLE001
        return "NONE"


def _frag_case(item):
    """one real query -> (name, abstracted input, abstracted real output | tag, real schema of input, of output)"""
    name, q = item
    reg = _FragTables()
    try:
        e = q().expr
        inp = frag_abstract(e, reg)
    except OutOfFragment as ex:
        return name, None, f"outside:{ex}", None, None
    except Exception as ex:  # noqa: BLE001  a query the API itself refuses
        return name, None, f"invalid:{type(ex).__name__}", None, None
    sch, osch = _frag_schema_of(e), "-"
    with _KeepAlive():
        try:
            out = e.simplify()
            got = "OK " + frag_abstract(out, reg)
            osch = _frag_schema_of(out)
        except OutOfFragment as ex:
            got = f"OUTSIDE {ex}"
        except RuntimeError as ex:
            got = "ERR nonconverge" if "does not converge" in str(ex) else f"EXC RuntimeError {str(ex)[:80]}"
        except Exception as ex:  # noqa: BLE001
            got = f"EXC {type(ex).__name__} {str(ex)[:80]}"
    return name, inp, got, sch, osch


def _frag_run_seed(args):
    seed, depth = args
    rng = random.Random(seed)
    holder = {}

    def q():
        if "q" not in holder:
            holder["q"] = frag_random_query(rng, depth)
        return holder["q"]

    return _frag_case((f"seed{seed}/d{depth}", q))


# the end-to-end space: every value an Assign receives and every predicate is computed from the very frame it is applied to
# (`assign_base` takes it from the source below a filter / join / concat: rows are then matched by index labels, through a
# shuffle whose row order is unspecified, or hit the open finding D51 on an emptied partition)
_FRAG_OPS_E2E = [o for o in _FRAG_OPS if o != "assign_base"]


def frag_query_by_name(name):
    """'seed<k>/d<depth>' (family generator), 'vseed<k>/d<depth>' (end-to-end generator) or the name of a hand-written
    query -> zero-argument builder of the collection"""
    if name.startswith("seed"):
        seed, depth = name[4:].split("/d")
        return lambda: frag_random_query(random.Random(int(seed)), int(depth))
    if name.startswith("vseed"):
        seed, depth = name[5:].split("/d")
        return lambda: frag_random_query(random.Random(int(seed)), int(depth), _FRAG_OPS_E2E)
    for n, q in frag_fixed_queries():
        if n == name:
            return q
    raise KeyError(name)


def _frag_has_unordered(e):
    """a join leaves row order and index unspecified"""
    return any(type(n).__name__ in ("Merge",) for n in e.walk())


def run_frag_case(case):
    """end to end for one query of the fragment: the plan of every requested stage computes the same as the query
    lowered without optimization -> same result dict as run_case"""
    import dask
    from dask_expr._expr import optimize_until

    name = case["frag"]
    res = {"status": "ok", "stages": 0, "program": "frag:" + name}
    _frag_sources()
    with dask.config.set({"dataframe.shuffle.method": case.get("method", "tasks"), "scheduler": "sync"}):
        try:
            expr = frag_query_by_name(name)().expr
        except Exception as ex:  # noqa: BLE001
            res.update(status="unsupported", why=f"build: {type(ex).__name__}")
            return res
        try:
            want = _exec_unoptimized(expr)
        except Exception as ex:  # noqa: BLE001
            res.update(status="unsupported", why=f"unoptimized raises {type(ex).__name__}")
            return res
        loose = _frag_has_unordered(expr)
        for st in case.get("stages", ["simplified-logical", "fused"]):
            try:
                e = optimize_until(expr, st)
                if st in ("simplified-logical", "tuned-logical"):
                    e = e.lower_completely()
                _, _, parts = plans.execute(e)
                got = plans.finalize(e, parts)
            except Exception as ex:  # noqa: BLE001
                tb = traceback.format_exc()
                res.update(status="fail", fail={
                    "kind": "raises", "stage": st, "exc": type(ex).__name__, "site": _site(tb),
                    "detail": f"stage {st}: optimized plan raises {type(ex).__name__}: {str(ex)[:200]} (unoptimized plan succeeds)"})
                return res
            res["stages"] += 1
            if not e2e.same(got, want, sort_rows=loose, drop_index=loose):
                res.update(status="fail", fail={
                    "kind": "differs", "stage": st, "exc": "", "site": "",
                    "detail": f"stage {st}: optimized plan computes\n{e2e.describe(got)}\nunoptimized plan computes\n{e2e.describe(want)}"})
                return res
    return res


def fam_fragment(ctx):
    """T2: the real `simplify()` on real queries of the fragment == the model's `simplify fragRules` on the abstracted
    query (exact tree equality), and the model's schema (`schemaOf`) of the query and of the result == the real
    `columns` / `ndim`."""
    f = Family("fragment[real simplify() on FromPandas/Projection/Elemwise/Binop/Assign/RenameFrame/Filter/Merge/Concat queries]")
    _frag_sources()
    cases = [_frag_case(it) for it in frag_fixed_queries()]
    n_rand = 260 if ctx.quick else 6000
    seeds = [(ctx.seed * 100003 + i, 1 + i % 4) for i in range(n_rand)]
    cases += _pmap(_frag_run_seed, seeds, chunksize=16)
    stats = collections.Counter()
    use = []
    for name, inp, got, sch, osch in cases:
        if inp is None:
            stats[got.split(":")[0]] += 1
            continue
        use.append((name, inp, got, sch, osch))
    schemas = drive([f"driver frag_schema tree={c[1]}" for c in use])
    # queries whose model denotation is undefined (side conditions of the fragment: key collisions of a merge,
    # duplicate labels, binop operands with different columns) are outside the theorem and outside the family
    keep = [(c, ms) for c, ms in zip(use, schemas) if ms != "NONE"]
    stats["not_wellformed_in_model"] = len(use) - len(keep)
    model = drive([f"driver frag_simplify tree={c[1]} fuel={FRAG_FUEL}" for c, _ in keep])
    # labels / ndim the model declares for ITS output (compared with the real output's columns / ndim)
    mout = drive([f"driver frag_schema tree={m[3:]}" if m.startswith("OK ") else "ping" for m in model])
    inputs, code, mod, nontriv = [], [], [], []
    classes = collections.Counter()
    for (c, ms), m, mo in zip(keep, model, mout):
        name, inp, got, sch, osch = c
        inputs.append({"query": name, "tree": frag_pretty(inp)})
        code.append((got if not got.startswith("OK ") else "OK " + frag_pretty(got[3:])) + " | " + sch + " | " + osch)
        mod.append((m if not m.startswith("OK ") else "OK " + frag_pretty(m[3:])) + " | " + ms + " | " + (mo if m.startswith("OK ") else "-"))
        nontriv.append(got != "OK " + inp)
        stats["rewritten" if got != "OK " + inp else "unchanged"] += 1
        for tok in inp.replace("(", ",").replace(")", ",").split(","):
            if "." in tok:
                classes[_FRAG_CLS[int(tok.split(".")[0])]] += 1
    f.compare(inputs, code, mod, nontriv)
    stats["nodes_by_class"] = dict(classes)
    f.note = (f"{len(frag_fixed_queries())} hand-written + {n_rand} seeded random queries of depth <= 4 (with shared sub-expressions); "
              f"{dict(stats)}; model fuel {FRAG_FUEL}")
    return f


def families(ctx):
    global _TIER
    _TIER = ctx.tier
    return [fam_drivers, fam_collect, fam_firings, fam_fragment]
