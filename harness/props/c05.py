"""C05 — results do not depend on task scheduling; tasks never mutate their inputs."""
from __future__ import annotations

import dask
import dask.threaded

from harness import e2e, graphs, plans, programs
from harness.core import Failure, Family, Support, drive

LEAN_MODULES = ["DxModel.Props.C05"]
GENERATED = []
TRUSTED = [
    "harness/graphs.py: extraction of (key, referenced keys) from real task tuples; own sequential executor built on dask.core._execute_task",
    "purity of the pandas-calling task functions is NOT proven: it is sampled by hashing every task argument before/after each call",
]
PARTIAL = [
    "PureTasks (no task mutates an argument or the user's source frames) cannot be exhibited by the model; validated by argument hashing over the vetted programs, every topological order tried",
    "real thread interleavings: covered by the start/finish schedule theorem only under the assumption that tasks are pure functions of their arguments",
]
EXPLANATION = (
    "Theorems: value is a function of the graph (fuel-independence), confluence of all dependency-respecting orders, "
    "any legal multi-worker start/finish schedule publishes the canonical values, soundness of the order checker; all for "
    "graphs of any size. Tie: the proven checker accepts the real graphs (so the theorems' Ranked hypothesis holds for them). "
    "Sampling (support): real graphs executed under LIFO / random / adversarial topological orders and 1..16 threads, "
    "repeated computes, with content hashes of every argument before and after each task and of the source frames."
)


def _cases(ctx):
    # programs that apply an order-sensitive operator to rows whose order dask-expr leaves unspecified
    # (e.g. cumsum after a disk shuffle) legitimately depend on the schedule: not in the quantifier
    progs = [p for p in programs.valid_programs(2, "any") if p.order_ok]
    must = [p for p in progs if p.name in (
        "assign_z/self_add", "assign_overwrite_shared", "assign_overwrite_concat", "fillna_shared", "shared_two_consumers", "shared_filter_sum", "mappart/self_add", "set_index_a/id",
        "shuffle_b/self_add", "shuffle_b_disk/id", "merge_left", "cumsum/self_add", "two_shifts", "fillna0/shared_sum",
        "rename_aA/self_add", "reset_index_keep/self_add", "concat", "sort_b/id", "dropdup_b/id")]
    return must + plans.seeded_slice(ctx, progs, 40 if ctx.quick else 800)


def fam_checker(ctx):
    f = Family("proven_checker_on_real_graphs[hypothesis Ranked of C05_confluence]")
    reqs, inputs = [], []
    for p in _cases(ctx):
        try:
            q = plans.build(p, 0)
            if not hasattr(q, "expr"):
                continue
            e = q.expr.optimize()
            g = dict(e.__dask_graph__())
        except Exception:  # noqa: BLE001
            continue
        problems, req, _ = graphs.model_check_graph(g, graphs.flat_keys(e.__dask_keys__()))
        reqs.append(req)
        inputs.append({"program": p.name, "n_tasks": len(g), "problems": problems})
    model = drive(reqs)
    f.compare([{k: v for k, v in i.items() if k != "problems"} for i in inputs],
              ["OK" if not i["problems"] else "PROBLEMS " + "; ".join(i["problems"]) for i in inputs], model)
    return f


def families(ctx):
    return [fam_checker]


def run_case(case, rng):
    """Execute one program's optimized graph under many schedules; -> failure text or None."""
    progs = {p.name: p for p in programs.valid_programs(2, "any")}
    p = progs[case["program"]]
    env = programs.dask_env()
    src_hash = {k: graphs.vhash(v.compute()) for k, v in env.items()}
    q = p.fn(env)
    if not hasattr(q, "expr"):
        return None
    e = q.expr.optimize(fuse=case.get("fuse", True))
    g = dict(e.__dask_graph__())
    outs = graphs.flat_keys(e.__dask_keys__())
    refs = graphs.structure(g)
    orders, cyc = graphs.adversarial_orders(refs, rng, n_random=2 if case.get("quick", True) else 6)
    if cyc:
        return f"cycle: {cyc[:2]!r}"
    unordered = p.unordered
    ref_res = None
    for name, order in orders:
        res, muts = graphs.execute_in_order(g, order, outs, refs, check_purity=True)
        if muts:
            return f"order {name}: task {muts[0][0]} modified its argument {muts[0][1]}"
        canon = [e2e.canon_obj(r, sort_rows=unordered, drop_index=p.noindex) for r in res]
        if ref_res is None:
            ref_res = canon
        elif canon != ref_res:
            return f"order {name} gives a different result than order {orders[0][0]}"
    for nthreads in case.get("threads", [1, 4, 16]):
        res = dask.threaded.get(g, outs, num_workers=nthreads)
        canon = [e2e.canon_obj(r, sort_rows=unordered, drop_index=p.noindex) for r in res]
        if canon != ref_res:
            return f"{nthreads} threads give a different result than the sequential order"
    # repeated compute of the same collection
    a = q.compute()
    b = q.compute()
    if e2e.canon_obj(a, sort_rows=unordered, drop_index=p.noindex) != e2e.canon_obj(b, sort_rows=unordered, drop_index=p.noindex):
        return "two computes of one collection differ"
    for k, v in env.items():
        if graphs.vhash(v.compute()) != src_hash[k]:
            return f"source frame {k} changed after computing"
    return None


def run_source_case(case):
    """The user's pandas object and the collection are independent after from_pandas/from_array/from_dict:
    modifying the user's object in place afterwards changes nothing, computing changes nothing in it."""
    import numpy as np
    import pandas as pd

    import dask_expr as dx

    n = 12
    idx = list(range(n)) if case["sorted"] else [(i * 5) % n for i in range(n)]
    pdf = pd.DataFrame({"x": np.arange(n, dtype="int64"), "y": np.arange(n, dtype="float64")}, index=idx)
    orig = pdf.copy(deep=True)
    df = dx.from_pandas(pdf, npartitions=case["npartitions"], sort=case["sort"])
    want_sum = int(orig.x.sum())
    got0 = int(df.x.sum().compute())
    if got0 != want_sum:
        return f"sum before any mutation is {got0}, data has {want_sum}"
    if graphs.vhash(pdf) != graphs.vhash(orig):
        return "building/computing the collection modified the user's frame"
    if case["mutate"] == "iloc":
        pdf.iloc[0, 0] = 999
    elif case["mutate"] == "column":
        pdf["x"] *= 10
    elif case["mutate"] == "values":
        pdf.values[:] = 7 if False else pdf.values  # no-op placeholder kept for determinism
        pdf.loc[:, "x"] = 5
    got = int({"sum": lambda: df.x.sum().compute(), "proj": lambda: df[["x"]].sum().compute()["x"],
               "filter": lambda: df[df.y >= 0].x.sum().compute(), "full": lambda: df.sum().compute()["x"]}[case["query"]]())
    if got != want_sum:
        return f"after the user modified their frame in place ({case['mutate']}) {case['query']} gives {got}, the collection was built from data summing to {want_sum}"
    again = int(df.x.sum().compute())
    if again != want_sum:
        return f"second compute of one collection gives {again} instead of {want_sum}"
    return None


def _result_source(kind, npartitions):
    import numpy as np
    import pandas as pd

    import dask_expr as dx

    n = 12
    ref = pd.DataFrame({"x": np.arange(n, dtype="int64") % 3, "y": np.arange(n, dtype="float64")})
    if kind == "from_pandas":
        return dx.from_pandas(ref.copy(deep=True), npartitions=npartitions), ref
    if kind == "from_dict":
        return dx.from_dict({"x": list(ref.x), "y": list(ref.y)}, npartitions=npartitions), ref
    if kind == "from_array":
        arr = np.stack([ref.x.to_numpy().astype("float64"), ref.y.to_numpy()], axis=1)
        return dx.from_array(arr, chunksize=n // npartitions, columns=["x", "y"]), ref.astype("float64")
    raise KeyError(kind)


def _tag(df):
    df["flag"] = df["y"] > 3  # a user function that modifies the partition object it was handed
    return df


def run_result_case(case):
    """What a compute() returned, or what a task was handed, belongs to its receiver: changing it in place must not
    leak into the collection (source partitions are fresh slices of a private copy).  Single-partition sources are
    the delicate case: nothing has to be sliced or concatenated there."""
    import dask

    df, ref = _result_source(case["source"], case["npartitions"])
    total = df.y.sum()
    how = case["how"]
    if how == "owner":
        first = df.compute()
        first["z"] = 1
        first.iloc[0, 1] = 99.0
        first.index.name = "row"
    elif how == "partition":
        parts = dask.compute(*df.to_delayed())
        parts[0]["z"] = 1
        parts[0].iloc[0, 1] = 99.0
    elif how == "udf":
        df.map_partitions(_tag).compute()
    elif how == "values":
        first = df.compute()
        try:
            first["y"].to_numpy()[:] = -1.0  # writes through a buffer if one is shared
        except ValueError:
            pass  # read-only buffer: nothing can leak
    second = df.compute()
    if list(second.columns) != list(ref.columns):
        return f"after the receiver changed a computed result in place ({how}) the collection computes columns {list(second.columns)}"
    if second.index.name is not None or not second.reset_index(drop=True).equals(ref.reset_index(drop=True)):
        return f"after the receiver changed a computed result in place ({how}) a second compute() differs: {e2e.describe(second, 4)}"
    if float(total.compute()) != float(ref.y.sum()):
        return f"after the receiver changed a computed result in place ({how}) y.sum() is {float(total.compute())} instead of {float(ref.y.sum())}"
    return None


def _result_cases(ctx):
    return [{"kind": "result", "source": s, "npartitions": n, "how": h}
            for s in ("from_pandas", "from_dict", "from_array") for n in (1, 3) for h in ("owner", "partition", "udf", "values")]


def _source_cases(ctx):
    cases = []
    for srt in (True, False):
        for sort in (True, False):
            for mut in ("iloc", "column", "values"):
                for query in ("sum", "proj", "filter", "full"):
                    cases.append({"kind": "source", "sorted": srt, "sort": sort, "mutate": mut, "query": query, "npartitions": 3})
    return cases


def support(ctx, broken):
    sup = Support()
    for case in _source_cases(ctx):
        try:
            msg = run_source_case(case)
        except Exception as ex:  # noqa: BLE001
            msg = f"raised {type(ex).__name__}: {str(ex)[:200]}"
        sup.executed += 1
        sup.count("source")
        if msg:
            sup.failures.append(Failure(sig={"kind": "source", "sort": case["sort"], "sorted": case["sorted"]}, case=case, detail=msg))
            if len(sup.failures) >= 3:
                return sup
    for case in _result_cases(ctx):
        try:
            msg = run_result_case(case)
        except Exception as ex:  # noqa: BLE001
            msg = f"raised {type(ex).__name__}: {str(ex)[:200]}"
        sup.executed += 1
        sup.count("result")
        if msg:
            sup.failures.append(Failure(sig={"kind": "result", "source": case["source"], "how": case["how"], "single_partition": case["npartitions"] == 1},
                                        case=case, detail=msg))
    for p in _cases(ctx):
        for fuse in (True, False) if (not ctx.quick or p.families[-1] == "shared") else (True,):
            case = {"program": p.name, "fuse": fuse, "quick": ctx.quick, "threads": [1, 4, 16] if ctx.quick else [1, 2, 4, 8, 16]}
            try:
                msg = run_case(case, ctx.rng)
            except Exception as ex:  # noqa: BLE001
                # failures to optimise / execute at all belong to C01/C02; not a scheduling matter
                sup.count("not-executable")
                continue
            sup.executed += 1
            sup.count("fuse" if fuse else "nofuse")
            if len(sup.samples) < 3:
                sup.samples.append(case)
            if msg:
                sup.failures.append(Failure(sig={"kind": "schedule", "program": p.name}, case=case, detail=msg))
        if len(sup.failures) >= 5:
            break
    return sup


def replay(case):
    import random

    if case.get("kind") == "source":
        msg = run_source_case(case)
        return Failure(sig={}, case=case, detail=msg) if msg else None
    if case.get("kind") == "result":
        msg = run_result_case(case)
        return Failure(sig={}, case=case, detail=msg) if msg else None
    msg = run_case(case, random.Random(0))
    return Failure(sig={}, case=case, detail=msg) if msg else None
