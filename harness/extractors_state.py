"""T1 generators for the identity/state properties C15, C08, C16.

CacheSites  — `ast` scan of /repo/dask_expr: every process-global mutable cache x every function touching it:
              read / write / guarded by recompute-on-miss / assert-on-miss / key expression / inputs of the
              memoised computation that the key does not mention.
NameRules   — for every live Expr subclass the shape of its `_name`: from the source of the providing
              `_name` (ast), cross-checked by behavioural probing of live instances where one can be had.
"""
from __future__ import annotations

import ast
import inspect
import re as _re
import textwrap
from pathlib import Path

from harness.core import REPO
from harness.extract import generator

PKG = REPO / "dask_expr"


def lean_str(s: str) -> str:
    return '"' + s.replace("\\", "\\\\").replace('"', '\\"').replace("\n", " ") + '"'


def lean_bool(b) -> str:
    return "true" if b else "false"


# =========================================================================== CacheSites

_CACHE_CTORS = {"LRU", "dict", "OrderedDict", "WeakValueDictionary", "WeakKeyDictionary", "defaultdict"}


def _is_cache_ctor(v) -> bool:
    if isinstance(v, ast.Dict) and not v.keys:
        return True
    if isinstance(v, ast.Call):
        f = v.func
        name = f.id if isinstance(f, ast.Name) else f.attr if isinstance(f, ast.Attribute) else None
        return name in _CACHE_CTORS
    return False


def _py_files():
    for p in sorted(PKG.rglob("*.py")):
        rel = p.relative_to(PKG).as_posix()
        if "tests/" in rel or rel.startswith("tests") or "conftest" in rel or rel == "_version.py":
            continue
        yield rel, p


class _Func:
    def __init__(self, module, qual, node, cls):
        self.module, self.qual, self.node, self.cls = module, qual, node, cls


def _functions(tree, module):
    out = []

    def rec(body, prefix, cls):
        for st in body:
            if isinstance(st, (ast.FunctionDef, ast.AsyncFunctionDef)):
                out.append(_Func(module, prefix + st.name, st, cls))
                rec(st.body, prefix + st.name + ".", cls)
            elif isinstance(st, ast.ClassDef):
                rec(st.body, prefix + st.name + ".", st.name)
            elif isinstance(st, (ast.If, ast.Try, ast.With)):
                for sub in ast.iter_child_nodes(st):
                    if isinstance(sub, list):
                        rec(sub, prefix, cls)
                for fld in ("body", "orelse", "finalbody"):
                    rec(getattr(st, fld, []) or [], prefix, cls)

    rec(tree.body, "", None)
    return out


def discover_caches(trees):
    """-> {cache_id: {"kind": module|class|instance, "module":…, "name":…, "owner":…}}"""
    cands = {}
    for module, tree in trees.items():
        for st in tree.body:
            if isinstance(st, ast.Assign) and len(st.targets) == 1 and isinstance(st.targets[0], ast.Name) and _is_cache_ctor(st.value):
                n = st.targets[0].id
                cands[n] = {"kind": "module", "module": module, "name": n, "owner": None, "display": n}
            if isinstance(st, ast.ClassDef):
                for cst in st.body:
                    if (isinstance(cst, ast.Assign) and len(cst.targets) == 1 and isinstance(cst.targets[0], ast.Name)
                            and isinstance(cst.value, ast.Call) and _is_cache_ctor(cst.value)
                            and (getattr(cst.value.func, "attr", None) or getattr(cst.value.func, "id", None)) in ("LRU", "WeakValueDictionary", "WeakKeyDictionary")):
                        n = cst.targets[0].id
                        cands[n] = {"kind": "class", "module": module, "name": n, "owner": st.name, "display": f"{st.name}.{n}"}
                    if isinstance(cst, ast.FunctionDef) and cst.name == "__init__":
                        for ist in ast.walk(cst):
                            if (isinstance(ist, ast.Assign) and len(ist.targets) == 1 and isinstance(ist.targets[0], ast.Attribute)
                                    and isinstance(ist.targets[0].value, ast.Name) and ist.targets[0].value.id == "self"
                                    and _is_cache_ctor(ist.value) and isinstance(ist.value, ast.Call)
                                    and getattr(ist.value.func, "id", None) == "LRU"):
                                n = ist.targets[0].attr
                                cands[n] = {"kind": "instance", "module": module, "name": n, "owner": st.name, "display": f"{st.name}.{n}"}
    return cands


def _refers(node, cache, aliases):
    """does expression `node` denote the cache object?"""
    if isinstance(node, ast.Name):
        return (cache["kind"] == "module" and node.id == cache["name"]) or node.id in aliases
    if isinstance(node, ast.Attribute):
        return cache["kind"] in ("class", "instance") and node.attr == cache["name"]
    return False


def _src(n):
    return ast.unparse(n)


def _inputs_of(expr, fn_params, local_defs, seen=None):
    """Free inputs (function parameters, `self.x`, `self.operand('x')`) an expression depends on,
    resolving single-assignment locals through their definitions."""
    seen = seen or set()
    out = set()

    class V(ast.NodeVisitor):
        def visit_Call(self, node):
            # self.operand("x")
            if (isinstance(node.func, ast.Attribute) and node.func.attr == "operand" and isinstance(node.func.value, ast.Name)
                    and node.func.value.id == "self" and node.args and isinstance(node.args[0], ast.Constant)):
                out.add(f"self.{node.args[0].value}")
                return
            self.generic_visit(node)

        def visit_Attribute(self, node):
            # innermost self.attr
            base = node
            chain = []
            while isinstance(base, ast.Attribute):
                chain.append(base.attr)
                base = base.value
            if isinstance(base, ast.Name) and base.id == "self":
                out.add("self." + chain[-1])
                return
            if isinstance(base, ast.Name):
                self.visit_Name(base)
                return
            self.generic_visit(node)

        def visit_Name(self, node):
            if node.id in fn_params and node.id != "self":
                out.add(node.id)
            elif node.id in local_defs and node.id not in seen:
                seen.add(node.id)
                for d in local_defs[node.id]:
                    out.update(_inputs_of(d, fn_params, local_defs, seen))

    V().visit(expr)
    return out


def _definitely_not_none(e):
    """syntactic judgement: the expression can never evaluate to None"""
    if isinstance(e, ast.Constant):
        return e.value is not None
    if isinstance(e, (ast.Tuple, ast.List, ast.Dict, ast.Set, ast.JoinedStr)):
        return True
    if isinstance(e, ast.Call) and isinstance(e.func, ast.Name) and e.func.id in ("tuple", "list", "dict", "set", "str", "int", "float", "bool"):
        return True
    if isinstance(e, ast.IfExp):
        t = e.test
        if (isinstance(t, ast.Compare) and len(t.ops) == 1 and isinstance(t.ops[0], ast.IsNot)
                and isinstance(t.comparators[0], ast.Constant) and t.comparators[0].value is None
                and ast.dump(t.left) == ast.dump(e.body)):
            return _definitely_not_none(e.orelse)
        return _definitely_not_none(e.body) and _definitely_not_none(e.orelse)
    return False


def _operand_guard(f, read_node):
    """If every path to `read_node` first passes `if self.operand("X") is not None: return …`, return "X"."""
    for st in f.node.body:
        if getattr(st, "lineno", 10**9) >= read_node.lineno:
            break
        if isinstance(st, ast.If) and st.body and isinstance(st.body[-1], ast.Return) and not st.orelse:
            t = st.test
            if (isinstance(t, ast.Compare) and len(t.ops) == 1 and isinstance(t.ops[0], ast.IsNot)
                    and isinstance(t.comparators[0], ast.Constant) and t.comparators[0].value is None
                    and isinstance(t.left, ast.Call) and isinstance(t.left.func, ast.Attribute) and t.left.func.attr == "operand"
                    and t.left.args and isinstance(t.left.args[0], ast.Constant)):
                return t.left.args[0].value
    return None


def _always_constructed_with(trees, cls_name, param):
    """Every call `cls_name(...)` in the package passes a definitely-not-None value for `param`
    (positionally or by keyword), and there is at least one such call."""
    params = None
    for tree in trees.values():
        for n in ast.walk(tree):
            if isinstance(n, ast.ClassDef) and n.name == cls_name:
                for st in n.body:
                    if isinstance(st, ast.Assign) and any(isinstance(t, ast.Name) and t.id == "_parameters" for t in st.targets) and isinstance(st.value, ast.List):
                        params = [e.value for e in st.value.elts if isinstance(e, ast.Constant)]
    if not params or param not in params:
        return False
    pos = params.index(param)
    calls = 0
    for tree in trees.values():
        for n in ast.walk(tree):
            if isinstance(n, ast.Call) and isinstance(n.func, ast.Name) and n.func.id == cls_name:
                calls += 1
                if any(isinstance(a, ast.Starred) for a in n.args):
                    return False
                val = n.args[pos] if len(n.args) > pos else next((k.value for k in n.keywords if k.arg == param), None)
                if val is None or not _definitely_not_none(val):
                    return False
    return calls > 0


def scan_cache_sites():
    trees = {rel: ast.parse(p.read_text()) for rel, p in _py_files()}
    caches = discover_caches(trees)
    funcs = [f for m, t in trees.items() for f in _functions(t, m)]

    # which classes are Expr subclasses (by name; live import)
    try:
        from harness.extractors import live_expr_classes

        expr_classes = {c.__qualname__ for c in live_expr_classes()} | {"Expr"}
    except Exception:  # noqa: BLE001
        expr_classes = set()

    raw = []  # per (func, cache)
    for f in funcs:
        own_nodes = []  # nodes of this function excluding nested defs

        def collect(n, top=True):
            for ch in ast.iter_child_nodes(n):
                if isinstance(ch, (ast.FunctionDef, ast.AsyncFunctionDef, ast.ClassDef)):
                    continue
                own_nodes.append(ch)
                collect(ch, False)

        collect(f.node)
        params = {a.arg for a in f.node.args.args + f.node.args.kwonlyargs}
        if f.node.args.vararg:
            params.add(f.node.args.vararg.arg)
        if f.node.args.kwarg:
            params.add(f.node.args.kwarg.arg)
        local_defs = {}
        for n in own_nodes:
            if isinstance(n, ast.Assign):
                for t in n.targets:
                    if isinstance(t, ast.Name):
                        local_defs.setdefault(t.id, []).append(n.value)
                    elif isinstance(t, (ast.Tuple, ast.List)):
                        for el in t.elts:
                            if isinstance(el, ast.Name):
                                local_defs.setdefault(el.id, []).append(n.value)
            if isinstance(n, ast.NamedExpr) and isinstance(n.target, ast.Name):
                local_defs.setdefault(n.target.id, []).append(n.value)
        for cid, cache in caches.items():
            aliases = {name for name, defs in local_defs.items() if any(_refers(d, cache, set()) for d in defs)}
            reads, writes, tests, asserts, gets, other = [], [], [], [], [], []
            assert_nodes = [n for n in own_nodes if isinstance(n, ast.Assert)]
            in_assert = {id(x) for a in assert_nodes for x in ast.walk(a)}
            for n in own_nodes:
                if isinstance(n, ast.Subscript) and _refers(n.value, cache, aliases):
                    if isinstance(n.ctx, ast.Load):
                        reads.append(n)
                    else:
                        writes.append(_src(n.slice))
                elif isinstance(n, ast.Compare) and len(n.ops) == 1 and isinstance(n.ops[0], (ast.In, ast.NotIn)) and _refers(n.comparators[0], cache, aliases):
                    (asserts if id(n) in in_assert else tests).append(_src(n.left))
                elif isinstance(n, ast.Call) and isinstance(n.func, ast.Attribute) and _refers(n.func.value, cache, aliases):
                    if n.func.attr == "get":
                        gets.append(_src(n.args[0]) if n.args else "")
                    elif n.func.attr in ("clear", "pop", "popitem", "update", "setdefault"):
                        writes.append("." + n.func.attr + "()")
                    else:
                        other.append(n.func.attr)
                elif isinstance(n, ast.Call) and isinstance(n.func, ast.Name) and n.func.id == "len" and n.args and _refers(n.args[0], cache, aliases):
                    other.append("len")
            if not (reads or writes or tests or asserts or gets or other):
                continue
            raw.append({"f": f, "cid": cid, "cache": cache, "reads": reads, "writes": writes, "tests": tests, "asserts": asserts,
                        "gets": gets, "other": other, "params": params, "local_defs": local_defs, "own_nodes": own_nodes})

    # operand-held cache of ReadParquet: `_dataset_info_cache`
    for f in funcs:
        consts = [n for n in ast.walk(f.node) if isinstance(n, ast.Constant) and n.value == "_dataset_info_cache"]
        if not consts or f.node.name in ("_tree_repr_argument_construction",):
            continue
        src = _src(f.node)
        rd = "self.operand('_dataset_info_cache')" in src
        wr = "index('_dataset_info_cache')" in src and "self.operands[" in src
        if rd or wr:
            raw.append({"f": f, "cid": "_dataset_info_cache", "cache": {"display": "ReadParquet.operands[_dataset_info_cache]", "kind": "operand"},
                        "operand_cache": True, "rd": rd, "wr": wr})

    # transitive writers of each cache (by simple function name)
    writers = {}
    for r in raw:
        if r.get("operand_cache"):
            continue
        if r["writes"]:
            writers.setdefault(r["cid"], set()).add(r["f"].node.name)
    calls_of = {}
    for f in funcs:
        names = set()
        for n in ast.walk(f.node):
            if isinstance(n, ast.Call):
                if isinstance(n.func, ast.Name):
                    names.add(n.func.id)
                elif isinstance(n.func, ast.Attribute):
                    names.add(n.func.attr)
            elif isinstance(n, ast.Attribute):
                names.add(n.attr)  # properties / cached_properties are "called" by attribute access
        calls_of[(f.module, f.qual)] = names
    for cid in list(writers):
        changed = True
        while changed:
            changed = False
            for f in funcs:
                if f.node.name not in writers[cid] and calls_of[(f.module, f.qual)] & writers[cid]:
                    # only propagate through functions that fill before returning (heuristic: same module family)
                    if f.module == next(ff.module for ff in funcs if ff.node.name in writers[cid]):
                        writers[cid].add(f.node.name)
                        changed = True

    # functions called from methods of Expr subclasses (one level) are "observable"
    called_from_expr_methods = set()
    for f in funcs:
        if f.cls in expr_classes:
            called_from_expr_methods |= calls_of[(f.module, f.qual)]

    rows = []
    for r in raw:
        f = r["f"]
        func = f"{f.module}:{f.qual}"
        observable = (f.cls in expr_classes) or (f.node.name in called_from_expr_methods and f.cls is None)
        if r.get("operand_cache"):
            rows.append({"cache": r["cache"]["display"], "func": func, "reads": r["rd"], "writes": r["wr"],
                         "guarded": True if r["rd"] else False, "asserts": False, "observable": observable, "unreachable": False,
                         "key": "(per expression)", "uncovered": [], "guard": "miss-branch" if r["rd"] and r["wr"] else ("passes-on" if r["rd"] else "-")})
            continue
        cache = r["cache"]
        read_keys = [_src(n.slice) for n in r["reads"]]
        guard = "-"
        guarded = True
        asserted = False
        all_unreachable = True
        for n in r["reads"]:
            k = _src(n.slice)
            if k in r["tests"] and k in r["writes"]:
                g = "miss-branch"
            elif k in r["asserts"]:
                g = "assert"
                asserted = True
            else:
                # a transitive writer called on an earlier line?
                early = False
                for m in r["own_nodes"]:
                    if isinstance(m, (ast.Call, ast.Attribute)) and getattr(m, "lineno", 10**9) < n.lineno:
                        nm = None
                        if isinstance(m, ast.Call):
                            nm = m.func.id if isinstance(m.func, ast.Name) else m.func.attr if isinstance(m.func, ast.Attribute) else None
                        else:
                            nm = m.attr
                        if nm in writers.get(r["cid"], ()) and nm != f.node.name:
                            early = True
                g = "filled-by-callee" if early else "bare"
            if g in ("assert", "bare"):
                guarded = False
                op_guard = _operand_guard(f, n)
                if not (op_guard and f.cls and _always_constructed_with(trees, f.cls, op_guard)):
                    all_unreachable = False
                else:
                    g += f"(unreachable: every constructor call passes `{op_guard}`)"
            guard = g if guard in ("-", g) else guard + "+" + g
        if r["gets"]:
            guard = (guard + "+" if guard != "-" else "") + ".get"
        keys = sorted(set(read_keys + r["writes"] + r["tests"] + r["asserts"] + r["gets"]))
        keys = [k + " = " + _src(r["local_defs"][k][0]) if k in r["local_defs"] and len(r["local_defs"][k]) == 1 else k for k in keys]
        # inputs of the memoised computation not mentioned by the key (get-or-compute sites only)
        uncovered = []
        if r["tests"] and any(w in r["tests"] for w in r["writes"]):
            ktxt = next(w for w in r["writes"] if w in r["tests"])
            kexpr = ast.parse(ktxt, mode="eval").body
            key_inputs = _inputs_of(kexpr, r["params"], r["local_defs"])
            val_inputs = set()
            for n in r["own_nodes"]:
                if isinstance(n, ast.Assign) and any(isinstance(t, ast.Subscript) and _refers(t.value, cache, set(a for a in r["local_defs"] if any(_refers(d, cache, set()) for d in r["local_defs"][a])))
                                                       for t in n.targets):
                    val_inputs |= _inputs_of(n.value, r["params"], r["local_defs"])
            # the object owning a per-instance cache is implicitly part of the key
            owner_inputs = set()
            if cache["kind"] == "instance":
                for name, defs in r["local_defs"].items():
                    for d in defs:
                        if _refers(d, cache, set()):
                            owner_inputs |= _inputs_of(d, r["params"], r["local_defs"])
                for n in r["own_nodes"]:
                    if isinstance(n, ast.Attribute) and _refers(n, cache, set()):
                        owner_inputs |= _inputs_of(n.value, r["params"], r["local_defs"])
            uncovered = sorted(val_inputs - key_inputs - owner_inputs - {"cls"})
        rows.append({"cache": cache["display"], "func": func, "reads": bool(r["reads"] or r["gets"]), "writes": bool(r["writes"]),
                     "guarded": guarded if (r["reads"] or r["gets"]) else True, "asserts": asserted, "observable": observable,
                     "unreachable": bool(r["reads"]) and not guarded and all_unreachable,
                     "key": " | ".join(keys), "uncovered": uncovered, "guard": guard})
    rows.sort(key=lambda x: (x["cache"], x["func"]))
    return rows


def fileinfo_token_fields():
    """attributes of a pyarrow FileInfo that `_tokenize_fileinfo` (io/parquet.py) puts into its token: the dataset
    checksum of the arrow reader and the key of `_STATS_CACHE` are built from exactly these"""
    tree = ast.parse((PKG / "io" / "parquet.py").read_text())
    for n in ast.walk(tree):
        if isinstance(n, ast.FunctionDef) and n.name == "_tokenize_fileinfo" and n.args.args:
            arg = n.args.args[0].arg
            out = []
            for r in ast.walk(n):
                if isinstance(r, ast.Return) and r.value is not None:
                    for a in ast.walk(r.value):
                        if isinstance(a, ast.Attribute) and isinstance(a.value, ast.Name) and a.value.id == arg:
                            out.append(a.attr)
            return out
    return []


@generator("CacheSites")
def gen_cache_sites():
    rows = scan_cache_sites()
    lines = [
        "/- GENERATED by harness/extractors_state.py (CacheSites) from an `ast` scan of /repo/dask_expr — do not edit.",
        "   One entry per (process-global mutable cache, function touching it). -/",
        "import DxModel.Cache",
        "namespace Dx.Generated",
        "open Dx.Cache",
        "",
        "def cacheSites : List Site := [",
    ]
    ents = []
    for r in rows:
        ents.append(
            f"  -- guard: {r['guard']}\n"
            f"  {{ cache := {lean_str(r['cache'])}, func := {lean_str(r['func'])}, reads := {lean_bool(r['reads'])}, writes := {lean_bool(r['writes'])},\n"
            f"    guarded := {lean_bool(r['guarded'])}, asserts := {lean_bool(r['asserts'])}, unreachable := {lean_bool(r['unreachable'])}, observable := {lean_bool(r['observable'])},\n"
            f"    key := {lean_str(r['key'])}, uncovered := [{', '.join(lean_str(u) for u in r['uncovered'])}] }}"
        )
    lines.append(",\n".join(ents))
    lines += ["]", "",
              "/-- FileInfo attributes entering `_tokenize_fileinfo` (arrow reader's dataset checksum, key of `_STATS_CACHE`) -/",
              "def fileinfoTokenFields : List String := [" + ", ".join(lean_str(x) for x in fileinfo_token_fields()) + "]", "",
              "end Dx.Generated", ""]
    return "\n".join(lines), len(rows) + 1


# =========================================================================== NameRules


def _provider(c):
    return next(b for b in c.__mro__ if "_name" in b.__dict__)


def _name_fn_source(provider):
    obj = provider.__dict__["_name"]
    fn = getattr(obj, "func", None) or getattr(obj, "fget", None) or obj
    return textwrap.dedent(inspect.getsource(fn))


def _operation_static(c):
    """-> (is_static_callable, funcname or None).  `operation` may be a plain function / staticmethod /
    M.<method> / None, or a property computed from operands."""
    from dask.utils import funcname

    for b in c.__mro__:
        if "operation" in b.__dict__:
            o = b.__dict__["operation"]
            if o is None:
                return True, None
            if isinstance(o, (staticmethod, classmethod)):
                return True, funcname(o.__func__)
            if isinstance(o, property) or type(o).__name__ == "cached_property":
                return False, None
            return True, funcname(o)
    return True, None


def analyse_name_source(provider):
    """ast classification of a `_name` implementation.
    -> dict(prefix_kind, prefix_const, tok_all, dropped_last, cls_in_tok, extra, whole_from_operand)"""
    src = _name_fn_source(provider)
    fn = ast.parse(src).body[0]
    info = {"prefix_kind": "dynamic", "prefix_const": None, "tok_all": False, "dropped_last": 0, "cls_in_tok": False,
            "extra": False, "whole_from_operand": False, "conditional_default": False}
    calls = [n for n in ast.walk(fn) if isinstance(n, ast.Call) and getattr(n.func, "id", None) == "_tokenize_deterministic"]
    if not calls:
        # _DelayedExpr: the whole name is read from an operand
        info["whole_from_operand"] = True
        return info
    shapes = set()
    for c in calls:
        all_ops, dropped, cls_in, extra = False, 0, False, False
        for a in c.args:
            if isinstance(a, ast.Starred):
                v = a.value
                if isinstance(v, ast.Attribute) and v.attr == "operands":
                    all_ops = True
                elif (isinstance(v, ast.Subscript) and isinstance(v.value, ast.Attribute) and v.value.attr == "operands"
                      and isinstance(v.slice, ast.Slice) and v.slice.lower is None and isinstance(v.slice.upper, ast.UnaryOp)):
                    dropped = int(v.slice.upper.operand.value)
                else:
                    extra = True
            else:
                if _src(a).replace(" ", "") == "funcname(type(self))":
                    cls_in = True
                else:
                    extra = True
        shapes.add((all_ops, dropped, cls_in, extra))
    if len(shapes) == 1:
        all_ops, dropped, cls_in, extra = next(iter(shapes))
        info.update(tok_all=all_ops, dropped_last=dropped, cls_in_tok=cls_in, extra=extra)
    else:
        info.update(tok_all=all(s[0] for s in shapes), extra=True)
    # prefix: everything that is not the tokenize call in the returned expressions
    rets = [n.value for n in ast.walk(fn) if isinstance(n, ast.Return) and n.value is not None]
    dyn_markers = ("self.operand(", "self.func", "self.token", "self.label", "self.prefix", "self.combine", "self.operation",
                   "str(self)", "self.obj", ")._funcname", "type(self.operand")
    txt = " ".join(_src(r) for r in rets) + " " + " ".join(
        _src(n.value) for n in ast.walk(fn) if isinstance(n, ast.Assign))
    body_txt = _src(fn)
    if any(m in body_txt for m in dyn_markers if m != "self.operation"):
        info["prefix_kind"] = "dynamic"
    elif "self.operation" in body_txt:
        info["prefix_kind"] = "operation"
    elif "funcname(type(self))" in body_txt.replace(" ", "") or "self._funcname" in body_txt:
        info["prefix_kind"] = "class"
    else:
        consts = [n.value for r in rets for n in ast.walk(r) if isinstance(n, ast.Constant) and isinstance(n.value, str) and n.value != "-"]
        if consts:
            info["prefix_kind"] = "const"
            info["prefix_const"] = consts[0]
    if "super()._name" in body_txt:
        info["conditional_default"] = True
    return info


_CLASS_SRC = None


def _class_sources():
    """{(module, qualname): source text with blanks removed} for every class in the package (parsed once)"""
    global _CLASS_SRC
    if _CLASS_SRC is None:
        _CLASS_SRC = {}
        for rel, p in _py_files():
            mod = "dask_expr." + rel[:-3].replace("/", ".")
            if mod.endswith(".__init__"):
                mod = mod[: -len(".__init__")]
            tree = ast.parse(p.read_text())

            def rec(body, prefix):
                for st in body:
                    if isinstance(st, ast.ClassDef):
                        _CLASS_SRC[(mod, prefix + st.name)] = ast.unparse(st).replace(" ", "")
                        rec(st.body, prefix + st.name + ".")

            rec(tree.body, "")
    return _CLASS_SRC


def _variadic(c):
    """does the class (or a base) read operands beyond `_parameters`?"""
    srcs = _class_sources()
    for b in c.__mro__:
        if b.__qualname__ == "Blockwise":
            continue  # Blockwise._args forwards extra operands generically; only classes that use them count
        if b.__qualname__ == "Expr":
            continue
        s = srcs.get((b.__module__, b.__qualname__))
        if s and ("operands[len(self._parameters):" in s or _re.search(r"(?<!\*)self\.operands\[\d+:\]", s)):
            return True
    return False


def _funcname_prop(c):
    """classes overriding `_funcname` (ReadParquet: 'read_parquet')"""
    for b in c.__mro__:
        if "_funcname" in b.__dict__ and b.__name__ != "Expr":
            return b
    return None


def name_rule_rows(probe=True):
    from dask.utils import funcname
    from dask_expr._core import Expr

    from harness.extractors import live_expr_classes

    classes = live_expr_classes()
    instances = collect_instances() if probe else {}
    cache = {}
    rows = []
    for i, c in enumerate(classes):
        prov = _provider(c)
        if prov not in cache:
            cache[prov] = analyse_name_source(prov)
        a = dict(cache[prov])
        pfx = ""
        const = False
        if a["whole_from_operand"]:
            const = False
        elif a["prefix_kind"] == "class":
            fp = _funcname_prop(c)
            if fp is not None:
                # a constant override of `_funcname`
                try:
                    srcf = _name_fn_source_attr(fp, "_funcname")
                    consts = [n.value for n in ast.walk(ast.parse(srcf)) if isinstance(n, ast.Constant) and isinstance(n.value, str)]
                    pfx, const = consts[0], True
                except Exception:  # noqa: BLE001
                    const = False
            else:
                pfx, const = funcname(c).lower(), True
        elif a["prefix_kind"] == "operation":
            static, fname = _operation_static(c)
            if static:
                # the prefix of a class with a static `operation` does not depend on operands: ask the providing `_name`
                # itself (on an operand-less raw object) rather than re-implementing its rule
                try:
                    raw = object.__new__(c)
                    raw.operands = []
                    n0 = _eval_name(c, raw)
                    pfx, const = n0[:-33], True
                except Exception:  # noqa: BLE001
                    pfx, const = (fname if fname is not None else funcname(c).lower()), True
        elif a["prefix_kind"] == "const":
            pfx, const = a["prefix_const"], True
        nparams = len(c._parameters)
        dropped = []
        if a["whole_from_operand"]:
            dropped = []  # `_DelayedExpr`: the name *is* the key of the wrapped Delayed — a function of the operand, nothing dropped
        elif a["dropped_last"]:
            dropped = list(range(max(0, nparams - a["dropped_last"]), max(nparams, 1)))
        elif not a["tok_all"]:
            dropped = list(range(nparams))
        row = {"id": i, "cls": f"{c.__module__}.{c.__qualname__}", "short": c.__qualname__, "pfx": pfx if const else "", "const": const,
               "provider": prov.__qualname__, "clsInTok": a["cls_in_tok"], "extra": a["extra"], "dropped": dropped,
               "nparams": nparams, "variadic": _variadic(c), "probed": False, "probe_note": "", "override": "_name" in c.__dict__}
        inst = instances.get(c)
        if inst is not None and len(inst.operands) > nparams:
            row["variadic"] = True  # a live instance carries operands beyond `_parameters`
            row["variadic_by_instance"] = True
        if inst is not None:
            ok, note = probe_instance(c, inst, row)
            row["probed"] = ok
            row["probe_note"] = note
        rows.append(row)
    # a class whose live instance is variadic passes that on to its subclasses
    by_cls = dict(zip(classes, rows))
    for c, row in by_cls.items():
        if not row["variadic"] and any(by_cls[b]["variadic"] and by_cls[b].get("variadic_by_instance") for b in c.__mro__[1:] if b in by_cls):
            row["variadic"] = True
    return rows


def _name_fn_source_attr(cls, attr):
    obj = cls.__dict__[attr]
    fn = getattr(obj, "func", None) or getattr(obj, "fget", None) or obj
    return textwrap.dedent(inspect.getsource(fn))


# ---- behavioural probing


def collect_instances():
    """One live instance per class, harvested from the nodes of a pool of queries in their
    built / optimized / lowered forms."""
    from harness import statepool

    out = {}
    for q in statepool.build_all(statepool.tmp_parquet()):
        for form in statepool.forms(q):
            for node in form.walk():
                out.setdefault(type(node), node)
    return out


def _perturb(v):
    """a different value of the same kind (only tokenization matters, nothing is executed)"""
    from dask_expr._core import Expr
    from dask_expr._expr import Literal

    if isinstance(v, Expr):
        return Literal(("__probe__", v._name))
    if isinstance(v, bool):
        return not v
    if isinstance(v, int):
        return v + 1
    if isinstance(v, float):
        return 0.25 if v != v else v + 0.5
    if isinstance(v, str):
        return v + "_x"
    if v is None:
        return "__probe__"
    if isinstance(v, tuple):
        return v + ("__probe__",)
    if isinstance(v, list):
        if any(isinstance(x, Expr) for x in v):
            return v + [Literal(("__probe__", len(v)))]
        return v + ["__probe__"]
    if isinstance(v, dict):
        d = dict(v)
        d["__probe__"] = 1
        return d
    return ("__probe__", type(v).__name__)


def probe_instance(c, inst, row):
    """Vary one operand at a time and compare with the ast-derived rule.  -> (confirmed, note)"""
    base = inst._name
    tok = base[-32:]
    prefix = base[:-33]
    notes = []
    ok = True
    if row["const"] and prefix != row["pfx"]:
        ok = False
        notes.append(f"prefix {prefix!r} != table {row['pfx']!r}")
    react = []
    for i, op in enumerate(inst.operands):
        ops = list(inst.operands)
        ops[i] = _perturb(op)
        try:
            other = object.__new__(c)
            other.operands = ops
            n2 = type(inst)._name.func(other) if hasattr(type(inst)._name, "func") else type(inst)._name.fget(other)
        except Exception as e:  # noqa: BLE001
            notes.append(f"operand {i}: {type(e).__name__}")
            continue
        changed = n2 != base
        react.append(changed)
        if row["const"] and n2[:-33] != prefix and not n2 == base:
            # the prefix moved with an operand although the table says it is constant
            if len(n2) > 33 and n2[-33] == "-":
                ok = False
                notes.append(f"prefix depends on operand {i}")
        if changed == (i in row["dropped"]):
            ok = False
            notes.append(f"operand {i} {'ignored' if not changed else 'tokenized'} but table says {'tokenized' if not changed else 'dropped'}")
    # does the class name enter the name?
    try:
        sub = type(c.__name__ + "Probe", (c,), {})
        other = object.__new__(sub)
        other.operands = list(inst.operands)
        n3 = _eval_name(sub, other)
        cls_enters_prefix = n3[:-33] != prefix
        cls_enters_token = n3[-32:] != tok
        if cls_enters_token != row["clsInTok"]:
            ok = False
            notes.append(f"class name in token: probe {cls_enters_token}, table {row['clsInTok']}")
        if row["const"] and cls_enters_prefix and row["pfx"] != c.__name__.lower():
            ok = False
            notes.append("class name enters the prefix")
    except Exception as e:  # noqa: BLE001
        notes.append(f"subclass probe: {type(e).__name__}")
    return ok, "; ".join(notes)


def _eval_name(cls, obj):
    d = None
    for b in cls.__mro__:
        if "_name" in b.__dict__:
            d = b.__dict__["_name"]
            break
    fn = getattr(d, "func", None) or getattr(d, "fget", None)
    return fn(obj)


@generator("NameRules")
def gen_name_rules():
    rows = name_rule_rows()
    pfx_ids = {}
    for p in sorted({r["pfx"] for r in rows if r["const"]}):
        pfx_ids[p] = len(pfx_ids) + 1

    def row_src(r):
        pc = f"some {pfx_ids[r['pfx']]}" if r["const"] else "none"
        note = f"    -- probe: {r['probe_note']}\n" if r["probe_note"] else ""
        return (
            note
            + f"    {{ id := {r['id']}, cls := {lean_str(r['cls'])}, pfx := {lean_str(r['pfx'])}, provider := {lean_str(r['provider'])}, probed := {lean_bool(r['probed'])},\n"
            f"      rule := {{ pfxConst := {pc}, clsInTok := {lean_bool(r['clsInTok'])}, extra := {lean_bool(r['extra'])}, dropped := [{', '.join(map(str, r['dropped']))}], "
            f"nparams := {r['nparams']}, variadic := {lean_bool(r['variadic'])} }} }}"
        )

    lines = [
        "/- GENERATED by harness/extractors_state.py (NameRules) from the live classes in /repo — do not edit.",
        "   One row per live Expr subclass: the shape of its `_name` (source of the providing `_name`, and",
        "   behavioural probing of a live instance where `probed := true`).  Rows are grouped by their constant",
        "   prefix string (numbered in ascending order); classes whose prefix is computed from operands come first. -/",
        "import DxModel.Names",
        "namespace Dx.Generated",
        "open Dx.Names",
        "",
        "/-- classes whose prefix is computed from operand values -/",
        "def dynamicRows : List Row := [",
        ",\n".join(row_src(r) for r in rows if not r["const"]),
        "]",
        "",
        "/-- (prefix number, classes with that constant prefix), ascending prefix numbers -/",
        "def nameGroups : List (Nat × List Row) := [",
    ]
    groups = []
    for p, pid in sorted(pfx_ids.items(), key=lambda kv: kv[1]):
        members = [r for r in rows if r["const"] and r["pfx"] == p]
        groups.append(f"  ({pid}, [\n" + ",\n".join(row_src(r) for r in members) + "])")
    lines.append(",\n".join(groups))
    lines += ["]", "", "def nameRows : List Row := dynamicRows ++ nameGroups.flatMap (·.2)", "",
              "/-- ids of the classes that define `_name` themselves -/",
              "def nameOverrides : List Nat := [" + ", ".join(str(r["id"]) for r in rows if r["override"]) + "]", "",
              "end Dx.Generated", ""]
    return "\n".join(lines), len(rows)
