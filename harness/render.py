"""Canonical text of real task graphs, mirrored by lean/Driver/Render.lean.

Keys:  <prefix>@<owner>:<ids>   owner = self | d<i> (i-th dependency) | - (no known name inside)
Tasks: name(args) with a fixed argument order per helper function.
"""
from __future__ import annotations

import operator
import re

import numpy as np
import pandas as pd

HEX32 = re.compile(r"[0-9a-f]{32}")


class Names:
    def __init__(self, self_name, dep_names):
        self.self_name = self_name
        self.dep_names = list(dep_names)

    def split(self, s: str):
        """-> (prefix, owner)"""
        if self.self_name and s.endswith(self.self_name):
            return s[: -len(self.self_name)], "self"
        for i, d in enumerate(self.dep_names):
            if s.endswith(d):
                return s[: -len(d)], f"d{i}"
        return HEX32.sub("U", s), "-"


def rid(x):
    if isinstance(x, (tuple, list)):
        return "(" + ".".join(rid(y) for y in x) + ")"
    if isinstance(x, (bool, np.bool_)):
        return "1" if x else "0"
    if isinstance(x, (int, np.integer)):
        return str(int(x))
    if isinstance(x, str):
        return "'" + x + "'"
    return "?" + type(x).__name__


def rkey(k, names: Names) -> str:
    if isinstance(k, tuple) and k and isinstance(k[0], str):
        pfx, owner = names.split(k[0])
        return f"{pfx}@{owner}:" + ".".join(rid(x) for x in k[1:])
    if isinstance(k, str):
        pfx, owner = names.split(k)
        return f"{pfx}@{owner}"
    return "?key:" + repr(k)[:40]


def b01(b):
    return "1" if b else "0"


def rfilter(f):
    if f is None:
        return "None"
    return "{" + ",".join(str(int(x)) for x in sorted(set(f))) + "}"


def is_keylike(x, graph):
    try:
        return isinstance(x, (tuple, str)) and x in graph
    except TypeError:
        return False


def rarg(x, names, graph=None):
    if isinstance(x, tuple) and x and isinstance(x[0], str):
        return rkey(x, names)
    if isinstance(x, list):
        return "[" + ",".join(rarg(y, names, graph) for y in x) + "]"
    if x is None:
        return "None"
    if isinstance(x, (bool, np.bool_)):
        return b01(x)
    if isinstance(x, (int, np.integer)):
        return str(int(x))
    if isinstance(x, str):
        return "'" + x + "'"
    if isinstance(x, (pd.DataFrame, pd.Series, pd.Index)):
        return "meta"
    if isinstance(x, (set, frozenset)):
        return rfilter(x)
    if isinstance(x, dict):
        return "{" + ",".join(f"{k}:{rarg(v, names, graph)}" for k, v in sorted(x.items(), key=lambda kv: str(kv[0]))) + "}"
    if callable(x):
        return "fn:" + getattr(x, "__name__", type(x).__name__)
    return "?" + type(x).__name__


def fname(f):
    return getattr(f, "__qualname__", None) or getattr(f, "__name__", None) or type(f).__name__


def rtask(t, names: Names, special=None) -> str:
    """special: dict qualname -> fn(task, names) -> str"""
    if isinstance(t, tuple) and t and callable(t[0]):
        f = t[0]
        if special:
            h = special.get(f) or special.get(fname(f))
            if h is not None:
                return h(t, names)
        if f is operator.getitem:
            return f"getitem({rarg(t[1], names)},{rarg(t[2], names)})"
        return f"apply:{fname(f)}(" + ",".join(rarg(a, names) for a in t[1:]) + ")"
    if isinstance(t, tuple) and t and isinstance(t[0], str):
        return f"alias({rkey(t, names)})"
    if isinstance(t, (pd.DataFrame, pd.Series, pd.Index)):
        return "meta"
    return "lit:" + rarg(t, names)


def rgraph(dsk: dict, names: Names, special=None) -> str:
    lines = sorted({rkey(k, names) + "=" + rtask(v, names, special) for k, v in dsk.items()})
    return "|".join(lines)


# --------------------------------------------------------------------------- generic structure


def task_refs(t, graph) -> list:
    """Keys of `graph` referenced by task `t` (dask semantics: tuples/strings that are keys,
    searched through nested lists and task tuples)."""
    out = []

    def walk(x):
        if isinstance(x, (tuple, str)):
            try:
                if x in graph:
                    out.append(x)
                    return
            except TypeError:
                pass
        if isinstance(x, tuple):
            for y in x:
                walk(y)
        elif isinstance(x, list):
            for y in x:
                walk(y)
        elif isinstance(x, dict):
            for y in x.values():
                walk(y)

    if isinstance(t, tuple) and t and callable(t[0]):
        for a in t[1:]:
            walk(a)
    else:
        walk(t)
    return out
