"""./check <property-id> [--tier quick|thorough] [--replay path]"""
import argparse
import json
import os
import sys


def main():
    ap = argparse.ArgumentParser()
    ap.add_argument("pid")
    ap.add_argument("--tier", default=os.environ.get("VERIF_TIER", "quick"), choices=["quick", "thorough"])
    ap.add_argument("--replay")
    a = ap.parse_args()
    seed = int(os.environ.get("VERIF_SEED", "0") or 0)
    import dask

    dask.config.set(scheduler="sync")
    from harness import core

    if a.replay:
        import importlib

        mod = importlib.import_module(f"harness.props.{a.pid.lower()}")
        payload = json.load(open(a.replay))
        if payload.get("kind") != "failing-input":
            print("replay names broken obligations only (no failing input was found):")
            print(json.dumps(payload.get("broken_obligations"), indent=1)[:4000])
            sys.exit(1)
        fl = mod.replay(payload["case"])
        if fl is None:
            print("replay: property holds on this input now")
            sys.exit(0)
        print(f"replay: still failing: {fl.detail[:2000]}")
        print(f"VIOLATION property={a.pid} replay={a.replay}")
        sys.exit(1)
    try:
        rc = core.run_property(a.pid, a.tier, seed)
    except Exception:
        import traceback

        traceback.print_exc()
        rc = 2
    sys.exit(rc)


if __name__ == "__main__":
    main()
