"""Shared pool of queries for the identity/state properties (C15 histories, C08 names, C16 pickles),
and the fresh-interpreter oracle.

Every query is a named builder `fn(env, **params)` with base parameters and a list of single-parameter
variations; it can therefore be rebuilt by name in a fresh subprocess (`python -c "…child_main()"`),
which is the oracle of C15/C16 and the determinism witness of C08.
"""
from __future__ import annotations

import json
import os
import shutil
import subprocess
import sys
import tempfile
import warnings

import numpy as np
import pandas as pd

warnings.filterwarnings("ignore")

ROOT = os.path.dirname(os.path.dirname(os.path.abspath(__file__)))
PY = "/venv/bin/python"

# --------------------------------------------------------------------------- data


def table_A(n=40):
    return pd.DataFrame(
        {
            "a": np.arange(n, dtype="int64"),
            "b": np.array([(i * 7) % 5 for i in range(n)], dtype="int64"),
            "c": np.array([((i * 13) % 17) * 0.5 for i in range(n)], dtype="float64"),
            "s": pd.array(["w%d" % ((i * 3) % 6) for i in range(n)], dtype="object"),
        },
        index=pd.Index(np.arange(n, dtype="int64"), name=None),
    )


def table_U(n=30):
    """unsorted index"""
    idx = [(i * 11) % n for i in range(n)]
    return pd.DataFrame({"a": np.arange(n, dtype="int64"), "b": np.arange(n, dtype="int64") % 4}, index=pd.Index(idx, dtype="int64"))


def table_P(n=40):
    """`b` ascending across partitions (already sorted), `a` descending"""
    return pd.DataFrame({"a": np.arange(n, dtype="int64")[::-1].copy(), "b": np.arange(100, n + 100, dtype="int64")},
                        index=pd.Index(np.arange(n, dtype="int64")))


def table_R():
    return pd.DataFrame({"b": np.array([0, 1, 2, 3, 7], dtype="int64"), "r": np.array([100, 101, 102, 103, 107], dtype="int64")},
                        index=pd.Index(np.arange(5, dtype="int64") * 2))


def parquet_frame(version=0, n=24):
    """contents of the parquet dataset at a given version (rewritten between history steps)"""
    return pd.DataFrame(
        {
            "a": np.arange(n, dtype="int64") + 100 * version,
            "b": np.array([(i + version) % 3 for i in range(n)], dtype="int64"),
            "s": pd.array(["v%d_%d" % (version, i % 4) for i in range(n)], dtype="object"),
        },
        index=pd.Index(np.arange(n, dtype="int64"), name="idx"),
    )


def write_parquet(path, version):
    """(re)write the dataset in place with pyarrow: `version` also changes the number of files/rows"""
    import pyarrow as pa
    import pyarrow.parquet as pq

    if os.path.exists(path):
        shutil.rmtree(path)
    os.makedirs(path)
    n = 24 + 6 * version
    pdf = parquet_frame(version, n)
    nfiles = 3 + (version % 2)
    step = -(-n // nfiles)
    for i in range(nfiles):
        part = pdf.iloc[i * step : (i + 1) * step]
        pq.write_table(pa.Table.from_pandas(part), os.path.join(path, f"part.{i}.parquet"))
    write_parquet_fixed(path + "_fixed", version)


def fixed_frame(version):
    lo = 1000 * (version + 1)
    return pd.DataFrame({"v": np.arange(2 * lo, 2 * lo + 20, dtype="int64")}, index=pd.Index(np.arange(lo, lo + 20, dtype="int64"), name="idx"))


def write_parquet_fixed(path, version):
    """A two-file dataset rewritten IN PLACE (files overwritten, not removed) to exactly the same byte sizes:
    fixed-width columns, same row count, no compression, no dictionary — only contents and mtime change."""
    os.makedirs(path, exist_ok=True)
    pdf = fixed_frame(version)
    before = [os.path.getsize(os.path.join(path, f)) for f in sorted(os.listdir(path)) if f.endswith(".parquet")]
    for i in range(2):
        pdf.iloc[10 * i: 10 * i + 10].to_parquet(os.path.join(path, f"part.{i}.parquet"), compression=None, use_dictionary=False, index=True)
    after = [os.path.getsize(os.path.join(path, f)) for f in sorted(os.listdir(path)) if f.endswith(".parquet")]
    if before and before != after:
        raise RuntimeError(f"fixed-size rewrite changed file sizes {before} -> {after}")
    with open(path + ".version", "w") as fh:
        fh.write(str(version))


_TMP = None


def tmp_parquet():
    """a dataset (version 0) under a tempdir of this process; removed at exit"""
    global _TMP
    if _TMP is None:
        import atexit

        _TMP = tempfile.mkdtemp(prefix="dxverif-state-")
        atexit.register(shutil.rmtree, _TMP, True)
        write_parquet(os.path.join(_TMP, "ds"), 0)
    return os.path.join(_TMP, "ds")


# --------------------------------------------------------------------------- functions used inside queries (importable by the child)

FAIL = set()


def flaky(df, tag):
    """identity unless the harness injected a failure for `tag`"""
    if tag in FAIL:
        raise RuntimeError(f"injected failure {tag}")
    return df


def add_k(df, k=1):
    return df + k


def make_part(i, width=3):
    return pd.DataFrame({"x": np.arange(i * width, (i + 1) * width, dtype="int64"), "y": np.full(width, i, dtype="int64")},
                        index=pd.Index(np.arange(i * width, (i + 1) * width, dtype="int64")))


class Env:
    def __init__(self, pq_path):
        self.pq = pq_path

    def A(self, npartitions=4, sort=True):
        import dask_expr as dx

        return dx.from_pandas(table_A(), npartitions=npartitions, sort=sort)

    def U(self, npartitions=3, sort=True):
        import dask_expr as dx

        return dx.from_pandas(table_U(), npartitions=npartitions, sort=sort)

    def P(self, npartitions=4):
        import dask_expr as dx

        return dx.from_pandas(table_P(), npartitions=npartitions)

    @property
    def pqf(self):
        return self.pq + "_fixed"

    def R(self, npartitions=2):
        import dask_expr as dx

        return dx.from_pandas(table_R(), npartitions=npartitions)


# --------------------------------------------------------------------------- the pool
# name -> (builder, base params, variations [(param, alternative value)], flags)
# flags: sort_rows (row order unspecified), tags


def _q_elem(env, k=1, col="a", nparts=4):
    return env.A(nparts)[col] + k


def _q_elem2(env, nparts=4, name="p"):
    A = env.A(nparts)
    return (A.a * A.b).rename(name)


def _q_assign(env, nparts=4, k=2):
    A = env.A(nparts)
    return A.assign(d=A.a + A.b * k)


def _q_filter(env, thr=10, nparts=4):
    A = env.A(nparts)
    return A[A.a > thr]


def _q_filter_proj(env, thr=5, cols=("a", "c"), nparts=4):
    A = env.A(nparts)
    return A[(A.a > thr) & (A.b < 3)][list(cols)]


def _q_proj(env, cols=("b", "a"), nparts=4):
    return env.A(nparts)[list(cols)]


def _q_series(env, col="c", nparts=4):
    return env.A(nparts)[col]


def _q_gb_sum(env, by="b", col="a", nparts=4):
    return env.A(nparts).groupby(by)[col].sum()


def _q_gb_agg(env, how="max", nparts=4, split_out=1):
    return env.A(nparts).groupby("b").agg({"a": how, "c": "count"}, split_out=split_out)


def _q_reduce(env, col="a", nparts=4):
    return env.A(nparts)[col].sum()


def _q_count(env, nparts=4):
    return env.A(nparts).count()


def _q_merge(env, how="inner", nparts=4, rparts=2):
    return env.A(nparts).merge(env.R(rparts), on="b", how=how)


def _q_merge_index(env, how="inner", nparts=4):
    A = env.A(nparts)
    return A[["a"]].merge(env.R(2)[["r"]], left_index=True, right_index=True, how=how)


def _q_sort(env, by="c", ascending=True, npartitions=None, nparts=4):
    # "a" is unique: the order of the result is fully specified
    keys = [by, "a"] if by != "a" else ["a"]
    return env.A(nparts).sort_values(keys, ascending=ascending, npartitions=npartitions, shuffle_method="tasks")


def _q_sort_s(env, by="s", nparts=3):
    return env.A(nparts).sort_values(by, shuffle_method="tasks")


def _q_set_index(env, col="c", npartitions=None, nparts=4, drop=True):
    return env.A(nparts).set_index(col, npartitions=npartitions, drop=drop, shuffle_method="tasks")


def _q_set_index_userdiv(env, col="c", nparts=4, warm=True):
    """set_index with the user's own divisions AFTER the same session planned the automatic (quantile) partitioning of
    the same frame and column with the same partition count: the lowered plan must carry the user's divisions with
    it, not look them up in the process-wide divisions cache"""
    A = env.A(nparts)
    if warm:
        auto = A.set_index(col, shuffle_method="tasks")
        auto.optimize()
        k = auto.npartitions
    else:
        k = nparts
    vals = sorted(table_A()[col].tolist())
    lo, hi = vals[0], vals[-1]
    cuts = [lo + (hi - lo) * i / k for i in range(k + 1)]
    cuts = [type(lo)(round(c)) if isinstance(lo, int) else float(c) for c in cuts]
    cuts[0], cuts[-1] = lo, hi
    return A.set_index(col, divisions=sorted(set(cuts)) if len(set(cuts)) == len(cuts) else [lo, hi], shuffle_method="tasks")


def _q_isin_strings(env, values=("w1", "w4", "zz", "w1", "w0"), nparts=3):
    """a list of strings as operand (its order must not come from a set: D98)"""
    A = env.A(nparts)
    return A[A.s.isin(list(values))][["a", "s"]]


def _q_chunked(env, chunksize=5, k=0):
    """from_pandas by chunksize: collections over EQUAL data with different chunk sizes share nothing but the data's
    token — per-frame caches (division/location info) must not be shared between them, here or after unpickling"""
    import dask_expr as dx

    return dx.from_pandas(table_A(), chunksize=chunksize)[["a", "b"]] + k


def _q_set_index_b(env, col="b", nparts=5):
    return env.A(nparts).set_index(col, shuffle_method="tasks")


def _q_set_index_then(env, col="c", k=1, nparts=4):
    x = env.A(nparts).set_index(col, shuffle_method="tasks")
    return x[["a"]] + k


def _q_set_index_nosort(env, col="b", nparts=4):
    return env.A(nparts).set_index(col, sort=False)


def _q_shuffle(env, on="b", npartitions=3, method="tasks", nparts=4):
    return env.A(nparts).shuffle(on, npartitions=npartitions, shuffle_method=method)


def _q_repart_n(env, npartitions=2, nparts=4):
    return env.A(nparts).repartition(npartitions=npartitions)


def _q_repart_div(env, divisions=(0, 10, 39), nparts=4):
    return env.A(nparts).repartition(divisions=list(divisions))


def _q_repart_size(env, size="400B", nparts=4, col=None):
    A = env.A(nparts)
    if col is not None:
        A = A[[col]]
    return A.repartition(partition_size=size)


def _q_concat(env, nparts=4, other_parts=2):
    import dask_expr as dx

    return dx.concat([env.A(nparts), env.A(other_parts)])


def _q_concat1(env, nparts=4):
    import dask_expr as dx

    A = env.A(nparts)
    return dx.concat([A[["a"]], A[["b"]] + 1], axis=1)


def _q_head(env, n=5, nparts=4):
    return env.A(nparts).head(n, compute=False)


def _q_tail(env, n=3, nparts=4):
    return env.A(nparts).tail(n, compute=False)


def _q_partitions(env, i=1, nparts=4):
    return env.A(nparts).partitions[i]


def _q_partitions_l(env, sel=(0, 2), nparts=4):
    return env.A(nparts).partitions[list(sel)]


def _q_from_map(env, n=3, width=3):
    import dask_expr as dx

    return dx.from_map(make_part, list(range(n)), width=width)


def _q_fused(env, k=3, nparts=4):
    A = env.A(nparts)
    x = A[["a", "b"]]
    return ((x + k) * 2).a.abs()


def _q_pq(env, columns=None, fs="fsspec"):
    import dask_expr as dx

    return dx.read_parquet(env.pq, columns=list(columns) if columns else None, filesystem=fs)


def _q_pq_filter(env, thr=10, cols=("a", "b"), fs="fsspec"):
    import dask_expr as dx

    r = dx.read_parquet(env.pq, filesystem=fs)
    return r[r.a % 100 > thr][list(cols)]


def _q_pq_pushed(env, thr=5, cols=("a",), fs="fsspec"):
    import dask_expr as dx

    return dx.read_parquet(env.pq, filters=[("a", ">", thr)], filesystem=fs)[list(cols)]


def _q_pq_none(env, cols=("b",), fs="fsspec"):
    """every row group is removed by the reader filter"""
    import dask_expr as dx

    return dx.read_parquet(env.pq, filters=[("a", ">", 10**6)], filesystem=fs)[list(cols)]


def _q_pq_len(env, fs="fsspec"):
    import dask_expr as dx

    return dx.read_parquet(env.pq, filesystem=fs).b.sum()


def _q_pq_index(env, fs="fsspec", calc=True):
    import dask_expr as dx

    return dx.read_parquet(env.pq, filesystem=fs, calculate_divisions=calc, index="idx")[["a"]]


def _q_pq_opts(env, index=None, calc=True, split=None, backend=None, cols=None):
    """reader options over the SAME files: whatever is planned for one combination must not serve another"""
    import dask_expr as dx

    kw = {}
    if index is not None:
        kw["index"] = index
    if split is not None:
        kw["split_row_groups"] = split
    if backend is not None:
        kw["dtype_backend"] = backend
    r = dx.read_parquet(env.pq, calculate_divisions=calc, **kw)
    return r[list(cols)] if cols else r


def _q_from_pandas_u(env, npartitions=3, sort=True):
    return env.U(npartitions, sort)


def _q_from_pandas_u2(env, npartitions=2, sort=False):
    return env.U(npartitions, sort).a + 1


def _q_flaky(env, tag="t1", nparts=4):
    x = env.A(nparts)[["a", "b"]]
    return x.map_partitions(flaky, tag, meta=x._meta)


def _q_flaky_sort(env, tag="t2", nparts=4):
    x = env.A(nparts)[["a", "c"]]
    return x.map_partitions(flaky, tag, meta=x._meta).sort_values(["c", "a"], shuffle_method="tasks")


def _q_mapp(env, k=1, nparts=4):
    return env.A(nparts)[["a", "b"]].map_partitions(add_k, k=k)


def _q_cumsum(env, col="a", nparts=4):
    return env.A(nparts)[col].cumsum()


def _q_dropdup(env, col="b", nparts=4):
    return env.A(nparts)[col].drop_duplicates()


def _q_value_counts(env, col="b", nparts=4):
    return env.A(nparts)[col].value_counts()


def _q_nunique(env, col="s", nparts=4):
    return env.A(nparts)[col].nunique()


def _q_loc(env, lo=5, hi=20, nparts=4):
    return env.A(nparts).loc[lo:hi]


def _q_isin(env, vals=(1, 3), nparts=4):
    A = env.A(nparts)
    return A[A.b.isin(list(vals))]


def _q_astype(env, dtype="float64", nparts=4):
    return env.A(nparts).a.astype(dtype)


def _q_str(env, nparts=4, method="upper"):
    return getattr(env.A(nparts).s.str, method)()


def _q_rename(env, nparts=4, new="z"):
    return env.A(nparts).rename(columns={"a": new})


def _q_reset(env, nparts=4, drop=False):
    return env.A(nparts).reset_index(drop=drop)


def _q_fillna(env, nparts=4, v=0):
    A = env.A(nparts)
    return A.c.where(A.c > 2).fillna(v)


def _q_shift(env, nparts=4, periods=1):
    return env.A(nparts).a.shift(periods)


def _q_min_max(env, nparts=4, col="c"):
    A = env.A(nparts)
    return A[col].max() - A[col].min()


def _q_sort_k(env, i=0):
    """a family of sorts with pairwise different `divisions_lru` keys (frame partitioning x column)"""
    nparts = 5 + i % 5
    col = "abcs"[(i // 5) % 4]
    keys = [col, "a"] if col != "a" else ["a"]
    return env.A(nparts).sort_values(keys, shuffle_method="tasks")


def _q_presorted(env, ascending=True, nparts=4):
    """sort by a column that is already ascending across the partitions: both directions share (frame, column, npartitions)"""
    return env.P(nparts).sort_values("b", ascending=ascending, shuffle_method="tasks")


def _q_pqf(env, calc=True):
    import dask_expr as dx

    return dx.read_parquet(env.pqf, filesystem="arrow", calculate_divisions=calc)


def _q_pqf_loc(env, width=2):
    """a label slice inside the *current* contents of the fixed-size dataset (needs truthful divisions)"""
    import dask_expr as dx

    lo = 1000 * (int(open(env.pqf + ".version").read()) + 1)
    return dx.read_parquet(env.pqf, filesystem="arrow", calculate_divisions=True).loc[lo + 2: lo + 2 + width]


def _q_sort_head(env, by="c", n=4, nparts=4):
    keys = [by, "a"] if by != "a" else ["a"]
    return env.A(nparts).sort_values(keys, shuffle_method="tasks").head(n, compute=False)


POOL = {
    "elem": (_q_elem, {}, [("k", 2), ("col", "b"), ("nparts", 3)], {}),
    "elem2": (_q_elem2, {}, [("name", "q"), ("nparts", 2)], {}),
    "assign": (_q_assign, {}, [("k", 3), ("nparts", 2)], {}),
    "filter": (_q_filter, {}, [("thr", 11), ("nparts", 5)], {}),
    "filter_proj": (_q_filter_proj, {}, [("thr", 6), ("cols", ("c", "a")), ("nparts", 2)], {}),
    "proj": (_q_proj, {}, [("cols", ("a", "b")), ("cols", ("b",)), ("nparts", 2)], {}),
    "series": (_q_series, {}, [("col", "a"), ("nparts", 2)], {}),
    "gb_sum": (_q_gb_sum, {}, [("by", "s"), ("col", "c"), ("nparts", 3)], {}),
    "gb_agg": (_q_gb_agg, {}, [("how", "min"), ("split_out", 2), ("nparts", 3)], {"sort_rows": True}),
    "reduce": (_q_reduce, {}, [("col", "b"), ("nparts", 3)], {}),
    "count": (_q_count, {}, [("nparts", 3)], {}),
    "merge": (_q_merge, {}, [("how", "left"), ("nparts", 3), ("rparts", 1)], {"sort_rows": "noindex"}),
    "merge_index": (_q_merge_index, {}, [("how", "left"), ("nparts", 2)], {"sort_rows": True}),
    "sort": (_q_sort, {}, [("by", "a"), ("ascending", False), ("npartitions", 3), ("nparts", 3)], {"tags": ["sort"]}),
    "sort_s": (_q_sort_s, {}, [("by", "b"), ("nparts", 4)], {"tags": ["sort"], "sort_rows": True}),
    "set_index": (_q_set_index, {}, [("col", "a"), ("npartitions", 2), ("nparts", 3), ("drop", False)], {"tags": ["sort", "set_index"], "sort_rows": True}),
    "set_index_userdiv": (_q_set_index_userdiv, {}, [("col", "a"), ("nparts", 3)], {"tags": ["sort", "set_index"], "sort_rows": True}),
    "isin_strings": (_q_isin_strings, {}, [("values", ("w2", "w3", "w5", "q")), ("nparts", 2)], {}),
    "chunked5": (_q_chunked, {"chunksize": 5}, [("k", 1)], {"tags": ["backend"]}),
    "chunked8": (_q_chunked, {"chunksize": 8}, [("k", 1)], {"tags": ["backend"]}),
    "chunked13": (_q_chunked, {"chunksize": 13}, [("k", 1)], {"tags": ["backend"]}),
    "set_index_b": (_q_set_index_b, {}, [("col", "s"), ("nparts", 4)], {"tags": ["sort", "set_index"], "sort_rows": True}),
    "set_index_then": (_q_set_index_then, {}, [("col", "b"), ("k", 2), ("nparts", 3)], {"tags": ["sort", "set_index"], "sort_rows": True}),
    "set_index_nosort": (_q_set_index_nosort, {}, [("col", "a"), ("nparts", 3)], {"sort_rows": True}),
    "shuffle": (_q_shuffle, {}, [("on", "s"), ("npartitions", 2), ("nparts", 3)], {"sort_rows": True}),
    "shuffle_disk": (_q_shuffle, {"method": "disk"}, [("on", "a"), ("npartitions", 2)], {"sort_rows": True, "tags": ["disk"]}),
    "repart_n": (_q_repart_n, {}, [("npartitions", 3), ("nparts", 5)], {}),
    "repart_div": (_q_repart_div, {}, [("divisions", (0, 20, 39)), ("nparts", 3)], {}),
    "repart_size": (_q_repart_size, {}, [("size", "300B"), ("size", "120B"), ("col", "a"), ("col", "b"), ("col", "c"), ("col", "s")] + [("nparts", k) for k in (2, 3, 5, 6, 7, 8, 9, 10)],
                    {"tags": ["memusage"]}),
    "concat": (_q_concat, {}, [("nparts", 3), ("other_parts", 1)], {}),
    "concat1": (_q_concat1, {}, [("nparts", 2)], {}),
    "head": (_q_head, {}, [("n", 6), ("nparts", 3)], {}),
    "tail": (_q_tail, {}, [("n", 4), ("nparts", 3)], {}),
    "partitions": (_q_partitions, {}, [("i", 2), ("nparts", 5)], {}),
    "partitions_l": (_q_partitions_l, {}, [("sel", (1, 3)), ("nparts", 5)], {}),
    "from_map": (_q_from_map, {}, [("n", 4), ("width", 2)], {}),
    "fused": (_q_fused, {}, [("k", 4), ("nparts", 2)], {}),
    "pq": (_q_pq, {}, [("columns", ("a",)), ("fs", "arrow")], {"tags": ["parquet"]}),
    "pq_filter": (_q_pq_filter, {}, [("thr", 11), ("cols", ("a",)), ("fs", "arrow")], {"tags": ["parquet"]}),
    "pq_pushed": (_q_pq_pushed, {}, [("thr", 6), ("cols", ("b",))], {"tags": ["parquet"]}),
    "pq_pushed_arrow": (_q_pq_pushed, {"fs": "arrow"}, [("thr", 6), ("cols", ("b",))], {"tags": ["parquet"]}),
    "pq_none_a": (_q_pq_none, {"cols": ("a",)}, [], {"tags": ["parquet", "pq_none"]}),
    "pq_none_b": (_q_pq_none, {"cols": ("b",)}, [], {"tags": ["parquet", "pq_none"]}),
    "pq_len": (_q_pq_len, {}, [("fs", "arrow")], {"tags": ["parquet"]}),
    "pq_index": (_q_pq_index, {}, [("calc", False)], {"tags": ["parquet"]}),
    "pq_opts_default": (_q_pq_opts, {}, [("calc", False)], {"tags": ["parquet"]}),
    "pq_opts_index_a": (_q_pq_opts, {"index": "a"}, [("calc", False)], {"tags": ["parquet"]}),
    "pq_opts_noindex": (_q_pq_opts, {"index": False}, [("cols", ("a", "idx"))], {"tags": ["parquet"]}),
    "pq_opts_split": (_q_pq_opts, {"split": True}, [("calc", False)], {"tags": ["parquet"]}),
    "pq_opts_backend": (_q_pq_opts, {"backend": "pyarrow"}, [("calc", False)], {"tags": ["parquet"]}),
    "from_pandas_u": (_q_from_pandas_u, {}, [("npartitions", 2), ("sort", False)], {}),
    "from_pandas_u2": (_q_from_pandas_u2, {}, [("npartitions", 3), ("sort", True)], {}),
    "flaky": (_q_flaky, {}, [("tag", "t9"), ("nparts", 2)], {"tags": ["flaky"], "fail_tag": "t1"}),
    "flaky_sort": (_q_flaky_sort, {}, [("tag", "t8"), ("nparts", 2)], {"tags": ["flaky", "sort"], "fail_tag": "t2"}),
    "mapp": (_q_mapp, {}, [("k", 2), ("nparts", 2)], {}),
    "cumsum": (_q_cumsum, {}, [("col", "b"), ("nparts", 2)], {}),
    "dropdup": (_q_dropdup, {}, [("col", "s"), ("nparts", 2)], {"sort_rows": True}),
    "value_counts": (_q_value_counts, {}, [("col", "s"), ("nparts", 2)], {"sort_rows": True}),
    "nunique": (_q_nunique, {}, [("col", "b"), ("nparts", 2)], {}),
    "loc": (_q_loc, {}, [("lo", 6), ("hi", 21), ("nparts", 3)], {}),
    "isin": (_q_isin, {}, [("vals", (1, 2)), ("nparts", 3)], {}),
    "astype": (_q_astype, {}, [("dtype", "int32"), ("nparts", 3)], {}),
    "str": (_q_str, {}, [("method", "lower"), ("nparts", 3)], {}),
    "rename": (_q_rename, {}, [("new", "y"), ("nparts", 3)], {}),
    "reset": (_q_reset, {}, [("drop", True), ("nparts", 3)], {}),
    "fillna": (_q_fillna, {}, [("v", 1), ("nparts", 3)], {}),
    "shift": (_q_shift, {}, [("periods", 2), ("nparts", 3)], {}),
    "min_max": (_q_min_max, {}, [("col", "a"), ("nparts", 3)], {}),
    "sort_k": (_q_sort_k, {}, [("i", k) for k in range(1, 16)], {"tags": ["sort"]}),
    "presorted_asc": (_q_presorted, {}, [("nparts", 5)], {"tags": ["sort", "presorted"], "parts": True}),
    "presorted_desc": (_q_presorted, {"ascending": False}, [("nparts", 5)], {"tags": ["sort", "presorted"], "parts": True}),
    "pqf": (_q_pqf, {}, [("calc", False)], {"tags": ["parquet", "pqf"]}),
    "pqf_loc": (_q_pqf_loc, {}, [("width", 3)], {"tags": ["parquet", "pqf"]}),
    "sort_head": (_q_sort_head, {}, [("by", "a"), ("n", 5), ("nparts", 3)], {"tags": ["sort"]}),
}


def flags(qid):
    return POOL[qid][3]


def build(qid, pq_path, variation=None):
    """variation: None | index into the query's variation list"""
    fn, base, variants, _ = POOL[qid]
    params = dict(base)
    if variation is not None:
        k, v = variants[variation]
        params[k] = v
    return fn(Env(pq_path), **params)


def fail_tag(qid, variation=None):
    """the failure-injection tag a flaky query listens to"""
    fn, base, variants, fl = POOL[qid]
    if variation is not None and variants[variation][0] == "tag":
        return variants[variation][1]
    return fl.get("fail_tag")


def build_all(pq_path, qids=None):
    return [build(q, pq_path) for q in (qids or POOL)]


def forms(coll):
    """expression forms of a query: as built, optimized (fused), lowered without fusion"""
    e = coll.expr
    out = [e]
    try:
        out.append(e.optimize(fuse=True))
        out.append(e.optimize(fuse=False))
    except Exception:  # noqa: BLE001
        pass
    return out


# --------------------------------------------------------------------------- observation (used on both sides)


def jsonable(x):
    if isinstance(x, tuple):
        return [jsonable(y) for y in x]
    if isinstance(x, list):
        return [jsonable(y) for y in x]
    if isinstance(x, dict):
        return {str(k): jsonable(v) for k, v in x.items()}
    if isinstance(x, (np.integer,)):
        return int(x)
    if isinstance(x, (np.floating,)):
        return float(x)
    if isinstance(x, (np.bool_,)):
        return bool(x)
    if x is None or isinstance(x, (str, int, float, bool)):
        return x
    return repr(x)


def canon_result(x, sort_rows=False):
    """sort_rows: False | True (row order unspecified) | "noindex" (… and the index is a meaningless per-partition counter)"""
    from harness import e2e

    return jsonable(e2e.canon_obj(x, sort_rows=bool(sort_rows), drop_index=(sort_rows == "noindex")))


def canon_divisions(divs):
    from harness import e2e

    return [jsonable(e2e._cv(d)) for d in divs]


def meta_schema(meta):
    if isinstance(meta, pd.DataFrame):
        return ["frame", [str(c) for c in meta.columns], [str(t) for t in meta.dtypes], str(meta.index.dtype), str(meta.index.name)]
    if isinstance(meta, pd.Series):
        return ["series", str(meta.name), str(meta.dtype), str(meta.index.dtype), str(meta.index.name)]
    if isinstance(meta, pd.Index):
        return ["index", str(meta.name), str(meta.dtype)]
    return ["scalar", type(meta).__name__]


ORACLE_ORDER = ("result", "meta", "name", "divisions", "len")


def observe(coll, what=ORACLE_ORDER, sort_rows=False):
    """-> dict of canonical observations, evaluated IN THE ORDER of `what` (the fresh-interpreter oracle computes
    the result first, on a process that has seen nothing else); an exception becomes {"error": type, "msg": …}."""
    out = {}

    def guard(key, fn):
        try:
            out[key] = fn()
        except Exception as e:  # noqa: BLE001
            out[key] = {"error": type(e).__name__, "msg": str(e)[:200]}

    for w in what:
        if w == "name":
            guard("name", lambda: coll._name)
            guard("opt_name", lambda: coll.optimize()._name)
        elif w == "meta":
            guard("meta", lambda: meta_schema(coll._meta))
        elif w == "divisions":
            guard("divisions", lambda: canon_divisions(coll.divisions))
            guard("opt_divisions", lambda: canon_divisions(coll.optimize().divisions))
            guard("npartitions", lambda: int(coll.optimize().npartitions))
        elif w == "len":
            guard("len", lambda: int(len(coll)) if hasattr(coll, "__len__") and getattr(coll, "ndim", 0) > 0 else None)
        elif w == "result":
            guard("result", lambda: canon_result(coll.compute(), sort_rows))
        elif w == "parts":
            guard("parts", lambda: parts_result(coll, sort_rows))
    return out


def parts_result(coll, sort_rows=False):
    """the partitioned plan executed partition by partition (`.compute()` would first push a repartition(1) below sorts)"""
    import dask

    opt = coll.optimize()
    parts = dask.get(dict(opt.__dask_graph__()), opt.__dask_keys__())
    return [canon_result(p, sort_rows) for p in parts]


# --------------------------------------------------------------------------- fresh-interpreter oracle


def run_child(job: dict, env=None, timeout=600) -> dict:
    """Run `job` in a fresh interpreter (empty caches).  job = {"kind":…, …}; returns the child's JSON answer."""
    e = dict(os.environ)
    e["PYTHONPATH"] = ROOT + os.pathsep + e.get("PYTHONPATH", "")
    e["PYTHONDONTWRITEBYTECODE"] = "1"
    if env:
        e.update(env)
    last = ""
    for attempt in range(2):
        p = subprocess.run([PY, "-W", "ignore", "-c", "from harness import statepool; statepool.child_main()"],
                           input=json.dumps(job), capture_output=True, text=True, timeout=timeout, env=e, cwd=ROOT)
        lines = [ln for ln in p.stdout.splitlines() if ln.startswith("@@RESULT@@")]
        if lines:
            # (a non-zero exit status after the answer was written — pyarrow threads aborting at interpreter shutdown — is harmless)
            return json.loads(lines[-1][len("@@RESULT@@"):])
        last = f"rc={p.returncode}: {p.stderr[-1500:]}"
    raise RuntimeError(f"child failed twice, {last}")


def child_main():
    import dask

    dask.config.set(scheduler="sync")
    job = json.loads(sys.stdin.read())
    kind = job["kind"]
    out = {}
    if kind == "observe":
        # [{"id":…, "qid":…, "variation":…, "what":[…]}]
        for it in job["items"]:
            try:
                coll = build(it["qid"], job["pq"], it.get("variation"))
                what = tuple(it.get("what", ORACLE_ORDER + (("parts",) if flags(it["qid"]).get("parts") else ())))
                out[it["id"]] = observe(coll, what,
                                        sort_rows=flags(it["qid"]).get("sort_rows", False))
            except Exception as e:  # noqa: BLE001
                out[it["id"]] = {"build_error": type(e).__name__, "msg": str(e)[:200]}
    elif kind == "names":
        # names of every node of every form of every query, optionally after building unrelated queries first
        for q in job.get("warmup", []):
            try:
                build(q, job["pq"]).optimize()
            except Exception:  # noqa: BLE001
                pass
        for it in job["items"]:
            out[it["id"]] = node_names(build(it["qid"], job["pq"], it.get("variation")))
    elif kind == "unpickle":
        import base64
        import pickle

        for it in job["items"]:
            res = {}
            try:
                obj = pickle.loads(base64.b64decode(it["blob"]))
                res["loaded"] = True
            except Exception as e:  # noqa: BLE001
                out[it["id"]] = {"load_error": type(e).__name__, "msg": str(e)[:300]}
                continue
            res.update(observe_loaded(obj, it.get("sort_rows", False)))
            out[it["id"]] = res
    elif kind == "history":
        from harness.props import c15

        out = c15.run_history(job["steps"], job["pq"], job.get("oracle"), job.get("only"))
    else:
        out = {"error": "unknown job kind"}
    sys.stdout.write("\n@@RESULT@@" + json.dumps(out) + "\n")
    sys.stdout.flush()


def observe_loaded(obj, sort_rows):
    """observations of an unpickled collection that must not need anything from the originating process"""
    res = {}

    def guard(key, fn):
        try:
            res[key] = fn()
        except Exception as e:  # noqa: BLE001
            res[key] = {"error": type(e).__name__, "msg": str(e)[:200]}

    guard("name", lambda: obj._name)
    guard("meta", lambda: meta_schema(obj._meta))
    guard("divisions", lambda: canon_divisions(obj.divisions))
    guard("result", lambda: canon_result(obj.compute(), sort_rows))
    return res


def node_names(coll):
    """names of every node of the built / optimized / unfused-lowered forms, and the output keys"""
    res = {}
    for label, e in zip(("built", "optimized", "lowered"), forms(coll)):
        res[label] = [[type(n).__name__, n._name] for n in e.walk()]
    try:
        opt = coll.expr.optimize(fuse=True)
        res["out_keys"] = [jsonable(k) for k in opt.__dask_keys__()]
        res["graph_keys"] = sorted(repr(k) for k in opt.__dask_graph__())
    except Exception as e:  # noqa: BLE001
        res["graph_error"] = type(e).__name__
    return res
