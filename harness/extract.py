"""T1: regenerate Lean tables from the live classes in /repo.  Files are only rewritten when
their content changes (so `lake build` stays a no-op on an unchanged tree)."""
from __future__ import annotations

from pathlib import Path

from harness.core import LEAN

GEN = LEAN / "DxModel" / "Generated"
_REGISTRY = {}


def generator(name):
    def deco(fn):
        _REGISTRY[name] = fn
        return fn

    return deco


def write_if_changed(path: Path, text: str) -> bool:
    path.parent.mkdir(parents=True, exist_ok=True)
    if path.exists() and path.read_text() == text:
        return False
    path.write_text(text)
    return True


def regenerate(names):
    """names: list of generator names (each writes Generated/<Name>.lean)."""
    from harness import extractors  # noqa: F401  (registers generators)
    from harness import extractors_layers  # noqa: F401  (C09: LayerClasses)

    info = {"obligations": 0, "files": {}}
    for n in names:
        text, nobl = _REGISTRY[n]()
        changed = write_if_changed(GEN / f"{n}.lean", text)
        info["files"][n] = {"changed": changed, "entries": nobl}
        info["obligations"] += nobl
    return info
