"""T1 for C04: the projection flag table of every live Expr subclass -> DxModel/Generated/ProjFlags.lean"""
from __future__ import annotations

import inspect

from harness.extract import generator

# Hand-assigned semantic category of every class that reaches `plain_column_projection` (through the
# `_projection_passthrough` flag or through its own `_simplify_up`).  Validated end-to-end by the C04 support
# search (harness/props/c04.py: passthrough programs, every constructible class x projections vs pandas).
#   columnLocal : output labels = labels of `frame`; output column c is a function of input column c, of the
#                 operator's key columns (passed as additional columns) and of operands that do not carry columns
#                 of their own that the result needs  (pruning `frame` alone is sound)
#   binaryUnion : a second frame operand contributes labels to the result (pruning `frame` alone is NOT sound)
#   paramKeyed  : a parameter names columns the operation then looks up in `frame`
#   crossColumn : an output entry for column c depends on other columns (corr / cov matrices, padded mode)
PLAIN_CATEGORIES = {
    # _projection_passthrough flag honoured by Blockwise._simplify_up / Elemwise / MaybeAlignPartitions
    "Abs": "columnLocal", "ArrowStringConversion": "columnLocal", "Fillna": "columnLocal", "IsNa": "columnLocal",
    "Isin": "columnLocal", "Map": "columnLocal", "Mask": "columnLocal", "NotNull": "columnLocal",
    "RenameAxis": "columnLocal", "Replace": "columnLocal", "Round": "columnLocal", "ToTimestamp": "columnLocal",
    "Where": "columnLocal", "_DeepCopy": "columnLocal", "CumulativeBlockwise": "columnLocal", "TakeLast": "columnLocal",
    "FillnaCheck": "columnLocal", "SortIndexBlockwise": "columnLocal", "FillnaAlign": "columnLocal",
    "Categorize": "paramKeyed",
    "OpAlignPartitions": "binaryUnion", "MethodOperatorAlign": "binaryUnion",
    # own _simplify_up calling plain_column_projection
    "Clip": "columnLocal", "Filter": "columnLocal", "FilterAlign": "columnLocal", "ExplodeFrame": "columnLocal",
    "Unaryop": "columnLocal", "Invert": "columnLocal", "Neg": "columnLocal", "Pos": "columnLocal",
    "Diff": "columnLocal", "FFill": "columnLocal", "BFill": "columnLocal", "Shift": "columnLocal",
    "Repartition": "columnLocal", "RepartitionDivisions": "columnLocal", "RepartitionFreq": "columnLocal",
    "RepartitionSize": "columnLocal", "RepartitionToFewer": "columnLocal", "RepartitionToMore": "columnLocal",
    "CumulativeAggregations": "columnLocal", "CumSum": "columnLocal", "CumProd": "columnLocal", "CumMax": "columnLocal",
    "CumMin": "columnLocal", "ResetIndex": "columnLocal",
    "NLargest": "columnLocal", "NSmallest": "columnLocal", "NFirst": "columnLocal", "NLast": "columnLocal",
    # reductions: one output entry per input column
    "Reduction": "columnLocal", "All": "columnLocal", "Any": "columnLocal", "Count": "columnLocal", "IdxMax": "columnLocal",
    "IdxMin": "columnLocal", "Max": "columnLocal", "Min": "columnLocal", "Mean": "columnLocal", "Prod": "columnLocal",
    "Sum": "columnLocal", "Var": "columnLocal", "Moment": "columnLocal", "NBytes": "columnLocal", "MemoryUsage": "columnLocal",
    "MemoryUsageFrame": "columnLocal", "MemoryUsageIndex": "columnLocal", "TotalMemoryUsageFrame": "columnLocal",
    "IndexCount": "columnLocal", "IsMonotonicDecreasing": "columnLocal", "IsMonotonicIncreasing": "columnLocal",
    "NuniqueApprox": "columnLocal", "ReductionConstantDim": "columnLocal", "ArrayReduction": "columnLocal",
    "DescribeNumeric": "columnLocal", "DescribeNonNumeric": "columnLocal", "Cat": "columnLocal",
    "Mode": "crossColumn", "Corr": "crossColumn", "Cov": "crossColumn",
}
for _r in ("Count", "First", "Last", "Max", "Mean", "Median", "Min", "NUnique", "Ohlc", "Prod", "Quantile", "Sem", "Size", "Std",
           "Sum", "Var", "Reduction"):
    PLAIN_CATEGORIES["Resample" + _r] = "columnLocal"

SOURCES = {"Timeseries", "ReadCSV", "ReadFwf", "ReadTable", "FromArray", "FromMapProjectable", "FromPandas",
           "FromPandasDivisions", "ReadParquet", "ReadParquetFSSpec", "ReadParquetPyarrowFS"}


def proj_flag_rows():
    """[(module.qualname, qualname, passthrough flag, absorb flag, plain user, category)]"""
    from dask_expr._expr import Blockwise, Expr, MaybeAlignPartitions
    from harness.extractors import live_expr_classes

    rows = []
    for c in live_expr_classes():
        flag = getattr(c, "_projection_passthrough", False) is True
        absorb = getattr(c, "_absorb_projections", False) is True
        owner = next(k for k in c.__mro__ if "_simplify_up" in k.__dict__)
        try:
            src = inspect.getsource(owner.__dict__["_simplify_up"])
        except (OSError, TypeError):
            src = ""
        calls_plain = "plain_column_projection(" in src
        if owner in (Blockwise, MaybeAlignPartitions) or (
            owner.__name__ == "Elemwise" and "super()._simplify_up" in src
        ):
            # the generic methods consult the flag
            plain_user = flag
        else:
            plain_user = calls_plain
        if "Filter._simplify_up(" in src:
            plain_user = True
        # module-qualified short name for the two `Mean`/`Var`/... homonyms (groupby vs reduction)
        q = c.__qualname__
        cat = PLAIN_CATEGORIES.get(q, "unclassified") if plain_user else ("source" if q in SOURCES else "other")
        if plain_user and c.__module__.endswith("_groupby"):
            cat = "unclassified"
        rows.append((f"{c.__module__}.{q}", q, flag, absorb, plain_user, cat, owner.__qualname__))
    return rows


@generator("ProjFlags")
def gen_proj_flags():
    rows = proj_flag_rows()
    lines = [
        "/- GENERATED by harness/extractors_cols.py (ProjFlags) from the live classes in /repo — do not edit.",
        "   One entry per live Expr subclass: MRO-resolved `_projection_passthrough`, `_absorb_projections`, whether the",
        "   class's resolved `_simplify_up` hands a Projection parent to `plain_column_projection`, hand-assigned category. -/",
        "import DxModel.Cols",
        "namespace Dx.Generated",
        "",
        "inductive PCat where",
        "  | columnLocal | binaryUnion | paramKeyed | crossColumn | source | other | unclassified",
        "  deriving DecidableEq, Repr",
        "",
        "structure ProjEntry where",
        "  name : String",
        "  short : String",
        "  pass : Bool",
        "  absorb : Bool",
        "  plainUser : Bool",
        "  cat : PCat",
        "",
        "def projFlags : List ProjEntry := [",
    ]
    ents = []
    for full, q, flag, absorb, plain_user, cat, _owner in rows:
        ents.append(f'  ⟨"{full}", "{q}", {str(flag).lower()}, {str(absorb).lower()}, {str(plain_user).lower()}, .{cat}⟩')
    lines.append(",\n".join(ents))
    lines += ["]", "", "end Dx.Generated", ""]
    n = sum(1 for r in rows if r[2] or r[3] or r[4])
    return "\n".join(lines), n
