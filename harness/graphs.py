"""Utilities on *real* task graphs: structure extraction, the proven order checker (T3),
own executor with chosen topological orders and argument hashing (purity sampling)."""
from __future__ import annotations

import hashlib
import pickle
import random

import dask
import numpy as np
import pandas as pd
from dask.core import _execute_task

from harness.core import drive
from harness.render import task_refs


def structure(g: dict):
    """-> ({key: [referenced keys]})"""
    return {k: task_refs(v, g) for k, v in g.items()}


_HEXNAME = __import__("re").compile(r"[0-9a-f]{32}$")


def dangling_refs(g: dict):
    """Key-shaped arguments (tuple whose head is a string ending in a 32-hex token, or equal to the
    head of some key of the graph) that are not keys of the graph — the KeyErrors waiting to happen."""
    heads = {k[0] for k in g if isinstance(k, tuple) and k and isinstance(k[0], str)}
    out = []

    def walk(x, owner, depth=0):
        if isinstance(x, tuple):
            try:
                if x in g:
                    return  # a proper reference (keys may be nested tuples, e.g. ((name, 0), 0))
            except TypeError:
                pass
        if isinstance(x, tuple) and x and isinstance(x[0], str) and len(x) >= 2:
            looks = x[0] in heads or _HEXNAME.search(x[0]) is not None
            if looks and all(isinstance(y, (int, np.integer, tuple, str)) for y in x[1:]):
                try:
                    if x not in g:
                        out.append((owner, x))
                except TypeError:
                    pass
                return
        if depth > 5:
            return
        if isinstance(x, (tuple, list)):
            for y in x:
                walk(y, owner, depth + 1)
        elif isinstance(x, dict):
            for y in x.values():
                walk(y, owner, depth + 1)

    for k, v in g.items():
        if isinstance(v, tuple) and v and callable(v[0]):
            fn = getattr(v[0], "__name__", "")
            if fn == "_execute_task":
                continue  # fused sub-graphs have their own internal keys; checked separately
            for a in v[1:]:
                walk(a, k)
        else:
            walk(v, k)
    return out


def topo_order(refs: dict, rng: random.Random | None = None, prefer=None):
    """Kahn's algorithm; with rng the choice among ready tasks is random; `prefer` (a set of keys)
    is scheduled as early as possible.  Returns (order, cyclic_keys)."""
    indeg = {k: 0 for k in refs}
    users = {k: [] for k in refs}
    for k, rs in refs.items():
        seen = set()
        for r in rs:
            if r in seen:
                continue
            seen.add(r)
            indeg[k] += 1
            users[r].append(k)
    ready = [k for k, d in indeg.items() if d == 0]
    order = []
    while ready:
        if prefer:
            pref = [i for i, k in enumerate(ready) if k in prefer]
        else:
            pref = []
        if pref:
            i = pref[0] if rng is None else rng.choice(pref)
        elif rng is not None:
            i = rng.randrange(len(ready))
        else:
            i = len(ready) - 1
        k = ready.pop(i)
        order.append(k)
        for u in users[k]:
            indeg[u] -= 1
            if indeg[u] == 0:
                ready.append(u)
    cyc = [k for k, d in indeg.items() if d > 0]
    return order, cyc


def check_order_requests(refs: dict, order: list):
    """the line for the Lean-proven checker `checkOrder` (keys mapped to integers)"""
    ids = {k: i for i, k in enumerate(order)}
    ents = []
    for k in order:
        rs = sorted({ids[r] for r in refs[k] if r in ids})
        missing = [r for r in refs[k] if r not in ids]
        if missing:
            rs.append(len(order) + 1)  # a reference to a key that is never listed -> FAIL
        ents.append(f"{ids[k]}:{','.join(map(str, rs))}")
    return "check order g=" + ";".join(ents)


def contains_planner_object(g: dict):
    """Return a description of the first Expr / collection object reachable from a task, or None."""
    from dask_expr._collection import FrameBase
    from dask_expr._core import Expr

    def walk(x, depth=0):
        if isinstance(x, (Expr, FrameBase)):
            return type(x).__name__
        if depth > 6:
            return None
        if isinstance(x, (tuple, list, set, frozenset)):
            for y in x:
                r = walk(y, depth + 1)
                if r:
                    return r
        elif isinstance(x, dict):
            for y in list(x.keys()) + list(x.values()):
                r = walk(y, depth + 1)
                if r:
                    return r
        elif hasattr(x, "func") and hasattr(x, "args"):  # functools.partial
            r = walk(x.args, depth + 1) or walk(getattr(x, "keywords", {}) or {}, depth + 1)
            if r:
                return r
        return None

    for k, v in g.items():
        r = walk(v)
        if r:
            return f"{k!r}: embeds {r}"
    return None


def picklable_without_expr(g: dict):
    """pickle the graph under the flag that forbids pickling expressions; -> error text or None"""
    try:
        with dask.config.set({"dask-expr-no-serialize": True}):
            pickle.dumps(g)
    except Exception as e:  # noqa: BLE001
        return f"{type(e).__name__}: {str(e)[:200]}"
    return None


# --------------------------------------------------------------------------- hashing of values


def vhash(x, depth=0):
    """Content hash of a task argument (pandas / numpy / containers); None when not hashable by content."""
    try:
        if isinstance(x, pd.DataFrame):
            h = hashlib.md5()
            h.update(repr(list(x.columns)).encode())
            h.update(repr([str(t) for t in x.dtypes]).encode())
            h.update(repr((x.index.name, tuple(x.columns.names))).encode())
            if len(x):
                h.update(pd.util.hash_pandas_object(x, index=True).values.tobytes())
            return "F" + h.hexdigest()
        if isinstance(x, pd.Series):
            h = hashlib.md5()
            h.update(repr((x.name, str(x.dtype), x.index.name)).encode())
            if len(x):
                h.update(pd.util.hash_pandas_object(x, index=True).values.tobytes())
            return "S" + h.hexdigest()
        if isinstance(x, pd.Index):
            h = hashlib.md5()
            h.update(repr((x.name, str(x.dtype))).encode())
            if len(x):
                h.update(pd.util.hash_pandas_object(x).values.tobytes())
            return "I" + h.hexdigest()
        if isinstance(x, np.ndarray):
            return "A" + hashlib.md5(x.tobytes() + str(x.dtype).encode() + repr(x.shape).encode()).hexdigest()
        if depth < 4 and isinstance(x, (list, tuple)):
            return "L" + hashlib.md5(repr([vhash(y, depth + 1) for y in x]).encode()).hexdigest()
        if depth < 4 and isinstance(x, dict):
            return "D" + hashlib.md5(repr(sorted((repr(k), vhash(v, depth + 1)) for k, v in x.items())).encode()).hexdigest()
    except Exception:  # noqa: BLE001
        return None
    return None


def execute_in_order(g: dict, order: list, outputs: list, refs: dict, check_purity=True):
    """Execute tasks in the given order with an explicit store.
    Returns (results, mutations) where mutations lists (task key, argument key) pairs whose stored
    value changed while the task ran."""
    cache = {}
    mutations = []
    hashes = {}
    for k in order:
        if check_purity:
            before = {r: hashes.get(r) for r in set(refs[k])}
        cache[k] = _execute_task(g[k], cache)
        if check_purity:
            for r, h0 in before.items():
                if h0 is None:
                    continue
                h1 = vhash(cache[r])
                if h1 != h0:
                    mutations.append((repr(k)[:120], repr(r)[:120]))
                    hashes[r] = h1
            hashes[k] = vhash(cache[k])
    res = []
    for o in outputs:
        res.append(cache[o])
    return res, mutations


def flat_keys(keys):
    out = []
    for k in keys:
        if isinstance(k, list):
            out.extend(flat_keys(k))
        else:
            out.append(k)
    return out


def adversarial_orders(refs: dict, rng: random.Random, n_random=2, max_shared=4):
    """Topological orders: deterministic LIFO, deterministic FIFO-ish random ones, and for keys with
    several consumers one order per consumer in which that consumer runs as early as possible."""
    orders = []
    o, cyc = topo_order(refs)
    if cyc:
        return [], cyc
    orders.append(("lifo", o))
    for i in range(n_random):
        orders.append((f"random{i}", topo_order(refs, rng)[0]))
    users = {}
    for k, rs in refs.items():
        for r in set(rs):
            users.setdefault(r, []).append(k)
    shared = [r for r, us in users.items() if len(us) >= 2]
    rng.shuffle(shared)
    for r in shared[:max_shared]:
        for u in users[r][:3]:
            # schedule `u` (and what it needs) before the other consumers of r
            need = set()
            stack = [u]
            while stack:
                x = stack.pop()
                if x in need:
                    continue
                need.add(x)
                stack.extend(refs[x])
            orders.append((f"first:{repr(u)[:40]}", topo_order(refs, rng, prefer=need)[0]))
    return orders, []


def model_check_graph(g: dict, outputs: list):
    """All structural checks of one real graph. Returns list of problems (strings) and the request line."""
    problems = []
    refs = structure(g)
    order, cyc = topo_order(refs)
    if cyc:
        problems.append(f"cycle through {cyc[:3]!r}")
    for o in outputs:
        if o not in g:
            problems.append(f"output key {o!r} not defined")
    for owner, ref in dangling_refs(g)[:3]:
        problems.append(f"task {owner!r} refers to undefined key {ref!r}")
    for k, v in g.items():
        if isinstance(v, tuple) and v and getattr(v[0], "__name__", "") == "_execute_task":
            sub, root = v[1], v[2]
            ext = set(v[3:])
            internal = dict(sub)
            for kk in list(internal):
                if isinstance(internal[kk], str) and internal[kk].startswith("_") and internal[kk][1:].isdigit():
                    pass
            for owner, ref in dangling_refs(internal)[:3]:
                problems.append(f"fused task {k!r}: member {owner!r} refers to {ref!r} which is neither a member nor a declared dependency")
            if root not in internal:
                problems.append(f"fused task {k!r}: root {root!r} undefined")
            # placeholder "_j" must stand for the j-th positional dependency of the fused task
            deps = list(v[3:])
            for kk, vv in internal.items():
                if isinstance(vv, str) and vv.startswith("_") and vv[1:].isdigit():
                    j = int(vv[1:])
                    if j >= len(deps) or deps[j] != kk:
                        problems.append(f"fused task {k!r}: sub-graph key {kk!r} is aliased to placeholder {vv} but positional dependency {j} is {deps[j] if j < len(deps) else None!r}")
                        break
    req = check_order_requests(refs, order if not cyc else list(g))
    return problems, req, refs
