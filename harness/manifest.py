"""Writes /verif/MANIFEST.json from the table below (python -m harness.manifest)."""
import json
from pathlib import Path

ROOT = Path(__file__).resolve().parent.parent
TITLES = {}
for ln in (ROOT / "properties.jsonl").read_text().splitlines():
    d = json.loads(ln)
    TITLES[d["id"]] = d["title"]

# claimed properties -> technique (the level text and note come from the props module itself)
TECHNIQUE = {
    "C11": "Lean 4 proof (filtered contract per source for every index list; Partitions/Head/Tail lowering and push-down; sorted head via per-partition n-firsts) + exact graph/rule correspondence + selection/head/tail search on every source",
    "C06": "Lean 4 proof (DivInv preserved by each modelled _divisions/task pair; partition-count equalities; length push-down rules; regenerated length-flag table decided by the kernel) + correspondence of _divisions/_get_lengths/Len rules + node-by-node divisions/length search",
    "C19": "Lean 4 proof (fusion loop and lower_completely terminate \u2014 lowering relation regenerated from the source and proven acyclic by a checked rank; simplify exits at a fixpoint) + table correspondence + step-count/determinism/idempotence search",
    "C16": "Lean 4 proof (reconstruct(reduce e) = e for all trees; observables independent of process-global caches per regenerated table) + __reduce__ correspondence + fresh-process unpickling search",
    "C15": "Lean 4 proof (LRU refines a pure map for all histories; get-or-compute transparency; weak singleton table under arbitrary GC; regenerated cache-site table decided by the kernel) + exhaustive LRU op-sequence correspondence + session-history search against fresh interpreters",
    "C14": "Lean 4 proof (fusion pass groups are GroupOK for every iteration order; fused sub-graph = unfused tasks incl. nested groups; termination measure) + correspondence of groups and fused sub-graphs + fuse-vs-nofuse per-partition search",
    "C08": "Lean 4 proof (Merkle-name injectivity for all trees under injective tokens; regenerated name-rule table decided by the kernel) + single-operand-variation correspondence + cross-process/hash-seed search",
    "C01": "Lean 4 proof (rewrite/simplify_once/simplify/lower_once/lower_completely/optimize_until preserve meaning for every sound rule system, any dependents map; no new failure) + exact correspondence of the real drivers on table-driven stub classes + traced firings + optimized-vs-unoptimized search",
    "C02": "Lean 4 proof (alg(parts)=spec(concat parts) for tree reduce, cumulative scan, overlap windows, blockwise with broadcast, shuffle-based reduce/join; all partitionings) + exact graph correspondence + all-cuts search against pandas",
    "C03": "Lean 4 proof (OR-factoring, squash/split, filter crossing per operator category, DNF + Kleene reader semantics, join-side legality; all trees/valuations) + regenerated flag table decided by the kernel + exact correspondence of the predicate/merge functions",
    "C04": "Lean 4 proof (labels/well-formedness/values per projection rule for any dependents list) + exact correspondence of every modelled _simplify_up/_simplify_down + regenerated flag tables",
    "C05": "Lean 4 proof (confluence of all topological orders / multi-worker schedules over key-indexed graphs) + proven checker on real graphs; purity sampled",
    "C07": "Lean 4 proof (declared labels = computed labels for label-level operator chains, every partition) + labels correspondence; dtype kinds compared end to end",
    "C09": "Lean 4 proof (LayerOK layers merge into a closed, acyclic graph; checker soundness) + exact graph correspondence + proven checker on real graphs",
    "C10": "Lean 4 proof (split_every independence of TreeReduce, one specification for all shuffle implementations) + graph correspondence + knob-grid search",
    "C12": "Lean 4 proof (run(layer)=sem for simple/staged/disk shuffle, all sizes) + exact graph correspondence",
    "C17": "Lean 4 proof (alias layer and cut theorems over key-indexed graphs) + exact FromGraph graph correspondence + cut-point search",
    "C18": "Lean 4 proof (fused-bucket partition, reader filter instance of C03, overwrite-guard prefix theorem) + correspondence of buckets/divisions/guard + parquet write/read-back search",
    "C13": "Lean 4 proof (fewer/more/size concat preservation, proven plan validator, planner for strict vectors) + exact graph correspondence + validator on all enumerated real plans",
}
DESIGN_REF = {k: f"DESIGN.md §6 {k}" for k in TECHNIQUE}


def claimed():
    import importlib

    out = {}
    for pid, tech in TECHNIQUE.items():
        mod = importlib.import_module(f"harness.props.{pid.lower()}")
        text = mod.EXPLANATION
        note = "Trusted: Lean 4.33 kernel + axioms propext/Classical.choice/Quot.sound; " + "; ".join(mod.TRUSTED)
        if getattr(mod, "PARTIAL", None):
            note += " | Partial / not exhibited by the model: " + "; ".join(mod.PARTIAL)
        out[pid] = (tech, text, note, DESIGN_REF[pid])
    return out


NOT_YET = "check not built yet in this round (planned, see DESIGN.md §10); no claim is made until its theorem and tie exist"


def main():
    CLAIMED = claimed()
    checks = []
    for pid in sorted(CLAIMED):
        tech, text, note, ref = CLAIMED[pid]
        checks.append(
            {
                "property_id": pid,
                "quick_cmd": f"./check {pid} --tier quick",
                "thorough_cmd": f"./check {pid} --tier thorough",
                "evidence_file": f"evidence/{pid}.json",
                "replay_cmd_template": f"./check {pid} --replay {{path}}",
                "engine": "lean-dxmodel",
                "level_claimed": {"category": "proof", "text": text, "design_ref": ref},
                "level_note": note,
                "technique": tech,
            }
        )
    man = {
        "version": 1,
        "setup_cmd": "cd lean && lake build DxModel dxdriver",
        "hooks": {
            "guard": "DASK_EXPR_VERIF",
            "enable": "no source hooks: the harness wraps the live classes at run time",
            "baseline_off_cmd": "cd /repo && /venv/bin/python -m pytest -ra -q -p no:cacheprovider --timeout=900 --continue-on-collection-errors",
            "source_commits": [],
            "add_only": True,
        },
        "engines": [
            {
                "name": "lean-dxmodel",
                "path": "lean",
                "serves_properties": sorted(CLAIMED),
                "kind_free_text": "Lean 4 model + theorems (lake lib DxModel), compiled model driver (dxdriver) for the correspondence, Python harness calling the real dask_expr in-process",
            }
        ],
        "checks": checks,
        "not_applicable": [{"property_id": p, "reason": NOT_YET} for p in sorted(TITLES) if p not in CLAIMED],
        "notes": "See DESIGN.md. known_findings.json lists open findings and fix: commits.",
    }
    (ROOT / "MANIFEST.json").write_text(json.dumps(man, indent=1) + "\n")


if __name__ == "__main__":
    main()
