"""Writes /verif/MANIFEST.json from the table below (python -m harness.manifest)."""
import json
from pathlib import Path

ROOT = Path(__file__).resolve().parent.parent
TITLES = {}
for ln in (ROOT / "properties.jsonl").read_text().splitlines():
    d = json.loads(ln)
    TITLES[d["id"]] = d["title"]

# property -> (technique, level text, level_note, design_ref)
CLAIMED = {
    "C12": (
        "Lean 4 proof (run(layer)=sem for simple/staged/disk shuffle, all sizes) + exact graph correspondence",
        "Machine-checked theorems over an executable Lean model of SimpleShuffle/TaskShuffle/DiskShuffle._layer for all "
        "(n_in, n_out, max_branch, partition subsets); the model is tied to the code on every run by exact equality of the "
        "generated task graphs over an enumerated parameter space, a proven-hypothesis check of the float stage arithmetic "
        "and helper-spec conformance; real shuffles are executed as support and as the failing-input search.",
        "Trusted: Lean kernel + standard axioms; Lean specs of dask's shuffle_group/_2/_get/collect and of the hash "
        "(equal values after cast hash equally); the renderers on both sides of the line protocol. Row order inside an "
        "output partition only up to permutation.",
        "DESIGN.md §6 C12",
    ),
}

NOT_YET = "check not built yet in this round (planned, see DESIGN.md §10); no claim is made until its theorem and tie exist"


def main():
    checks = []
    for pid in sorted(CLAIMED):
        tech, text, note, ref = CLAIMED[pid]
        checks.append(
            {
                "property_id": pid,
                "quick_cmd": f"./check {pid} --tier quick",
                "thorough_cmd": f"./check {pid} --tier thorough",
                "evidence_file": f"evidence/{pid}.json",
                "replay_cmd_template": f"./check {pid} --replay {{path}}",
                "engine": "lean-dxmodel",
                "level_claimed": {"category": "proof", "text": text, "design_ref": ref},
                "level_note": note,
                "technique": tech,
            }
        )
    man = {
        "version": 1,
        "setup_cmd": "cd lean && lake build DxModel dxdriver",
        "hooks": {
            "guard": "DASK_EXPR_VERIF",
            "enable": "no source hooks: the harness wraps the live classes at run time",
            "baseline_off_cmd": "cd /repo && /venv/bin/python -m pytest -ra -q -p no:cacheprovider --timeout=900 --continue-on-collection-errors",
            "source_commits": [],
            "add_only": True,
        },
        "engines": [
            {
                "name": "lean-dxmodel",
                "path": "lean",
                "serves_properties": sorted(CLAIMED),
                "kind_free_text": "Lean 4 model + theorems (lake lib DxModel), compiled model driver (dxdriver) for the correspondence, Python harness calling the real dask_expr in-process",
            }
        ],
        "checks": checks,
        "not_applicable": [{"property_id": p, "reason": NOT_YET} for p in sorted(TITLES) if p not in CLAIMED],
        "notes": "See DESIGN.md. known_findings.json lists open findings and fix: commits.",
    }
    (ROOT / "MANIFEST.json").write_text(json.dumps(man, indent=1) + "\n")


if __name__ == "__main__":
    main()
