"""End-to-end differential execution helpers: vetted tables, partition layouts, canonical comparison."""
from __future__ import annotations

import itertools
import warnings

import dask
import numpy as np
import pandas as pd

warnings.filterwarnings("ignore")
dask.config.set(scheduler="sync")

import dask_expr as dx  # noqa: E402


# --------------------------------------------------------------------------- tables (Appendix C)


def T_int(n=8):
    return pd.DataFrame(
        {
            "a": np.arange(1, n + 1, dtype="int64"),
            "b": np.array([(i * 3) % 4 for i in range(n)], dtype="int64"),
            "c": pd.array([None if i in (2, 5) else float(i % 3) for i in range(n)], dtype="float64"),
        },
        index=pd.Index(np.arange(n, dtype="int64") * 2, name=None),
    )


def T_str(n=8):
    words = ["x", "y", "z", "x", "w", "y", "x", "v"]
    return pd.DataFrame(
        {
            "k": pd.array([words[i % 8] for i in range(n)], dtype="object"),
            "cat": pd.Categorical([["p", "q", "r"][i % 3] for i in range(n)]),
            "v": np.arange(n, dtype="int64") * 10,
            "s": pd.array([None if i == 3 else "s%d" % (i % 4) for i in range(n)], dtype="object"),
        },
        index=pd.Index(np.arange(n, dtype="int64")),
    )


def T_dt(n=8):
    return pd.DataFrame(
        {"a": np.arange(n, dtype="int64"), "b": np.arange(n, dtype="int64") % 3},
        index=pd.date_range("2000-01-01", periods=n, freq="D"),
    )


def T_dupidx(n=8):
    return pd.DataFrame(
        {"a": np.arange(n, dtype="int64"), "b": (np.arange(n, dtype="int64") * 7) % 5},
        index=pd.Index([i // 2 for i in range(n)], dtype="int64"),
    )


def T_neg(n=8):
    return pd.DataFrame(
        {"a": np.array([-1.5, -0.5, 0.0, 0.5, 1.0, 1.5, 2.0, 2.5][:n]), "b": np.arange(n, dtype="int64") - 3},
        index=pd.Index(np.arange(n, dtype="int64")),
    )


def T_right(n=6):
    return pd.DataFrame(
        {
            "b": np.array([0, 1, 1, 2, 5, 7][:n], dtype="int64"),
            "c": np.arange(n, dtype="int64") + 100,
            "d": np.array([10, 20, 30, 40, 50, 60][:n], dtype="int64"),
        },
        index=pd.Index(np.arange(n, dtype="int64") * 3),
    )


TABLES = {"T_int": T_int, "T_str": T_str, "T_dt": T_dt, "T_dupidx": T_dupidx, "T_neg": T_neg, "T_right": T_right}


# --------------------------------------------------------------------------- layouts


def all_cuts(n, kmax=None):
    """All ways of cutting n rows into contiguous non-empty partitions: lists of boundaries [0,…,n]."""
    out = []
    for r in range(0, n):
        if kmax is not None and r + 1 > kmax:
            break
        for comb in itertools.combinations(range(1, n), r):
            out.append([0, *comb, n])
    return out


def with_empties(cuts, n):
    """Layouts derived from `cuts` with one empty partition inserted at each position."""
    out = []
    for pos in range(len(cuts)):
        c = list(cuts)
        c.insert(pos, c[pos])
        out.append(c)
    return out


def frame_from_cuts(pdf: pd.DataFrame, cuts, known_divisions=True, sort=True):
    """A dask-expr collection whose partitions are exactly pdf.iloc[cuts[i]:cuts[i+1]]."""
    parts = [pdf.iloc[cuts[i] : cuts[i + 1]] for i in range(len(cuts) - 1)]
    divisions = None
    if known_divisions and pdf.index.is_monotonic_increasing and len(pdf):
        # divisions are only truthful when no index value straddles a border and no partition is empty
        ok = all(len(p) for p in parts)
        divs = []
        if ok:
            for i, p in enumerate(parts):
                divs.append(p.index[0])
            divs.append(parts[-1].index[-1])
            for i in range(1, len(parts)):
                if not parts[i - 1].index[-1] < parts[i].index[0]:
                    ok = False
        if ok:
            divisions = tuple(divs)
    meta = pdf.iloc[:0]
    kw = {"divisions": divisions} if divisions is not None else {}
    return dx.from_map(_PartGetter(parts), list(range(len(parts))), meta=meta, **kw)


class _PartGetter:
    """picklable, deterministic-token function returning the i-th prepared partition"""

    def __init__(self, parts):
        self.parts = parts
        self.__name__ = "partgetter"  # FromMap builds its name prefix from funcname(func)

    def __call__(self, i):
        return self.parts[i].copy()

    def __dask_tokenize__(self):
        from dask.base import tokenize

        return ("PartGetter", tokenize([p for p in self.parts]))


# --------------------------------------------------------------------------- execution & comparison


def compute_partitions(coll_or_expr, optimize=True):
    """Compute every output partition separately (list of pandas objects)."""
    expr = getattr(coll_or_expr, "expr", coll_or_expr)
    if optimize:
        expr = expr.optimize()
    else:
        expr = expr.lower_completely()
    g = dict(expr.__dask_graph__())
    keys = expr.__dask_keys__()
    return list(dask.get(g, keys))


def canon_obj(x, sort_rows=False, drop_index=False):
    """Canonical, comparable description of a pandas object (frames, series, index, scalars)."""
    if isinstance(x, pd.Index):
        x = x.to_series().reset_index(drop=True)
        drop_index = True
    if isinstance(x, pd.Series):
        x = x.to_frame(name=("__series__", x.name))
    if isinstance(x, pd.DataFrame):
        df = x.copy()
        cols = [str(c) for c in df.columns]
        df.columns = range(len(cols))
        for c in df.columns:
            if isinstance(df[c].dtype, pd.CategoricalDtype):
                df[c] = df[c].astype(object)
        if drop_index:
            df = df.reset_index(drop=True)
        rows = []
        for idx, row in zip(df.index, df.itertuples(index=False)):
            rows.append((None if drop_index else _cv(idx),) + tuple(_cv(v) for v in row))
        if sort_rows:
            rows = sorted(rows, key=repr)
        return ("frame", tuple(cols), tuple(rows))
    return ("scalar", _cv(x))


def _cv(v):
    if isinstance(v, tuple):
        return tuple(_cv(x) for x in v)
    try:
        if v is None or v is pd.NaT or (isinstance(v, float) and np.isnan(v)) or v is pd.NA:
            return None
    except TypeError:
        pass
    try:
        if pd.isna(v):
            return None
    except (TypeError, ValueError):
        pass
    if isinstance(v, (np.integer,)):
        return int(v)
    if isinstance(v, (np.bool_, bool)):
        return bool(v)
    if isinstance(v, (np.floating, float)):
        f = float(v)
        return int(f) if f == int(f) and abs(f) < 2**53 else round(f, 9)
    if isinstance(v, (pd.Timestamp, np.datetime64)):
        return str(pd.Timestamp(v))
    if isinstance(v, (pd.Timedelta, np.timedelta64)):
        return str(pd.Timedelta(v))
    return v if isinstance(v, (str, int)) else repr(v)


def same(a, b, sort_rows=False, drop_index=False):
    return canon_obj(a, sort_rows, drop_index) == canon_obj(b, sort_rows, drop_index)


def describe(x, n=12):
    try:
        return repr(x.head(n) if hasattr(x, "head") else x)[:700]
    except Exception:
        return repr(x)[:700]


def run_or_err(fn):
    """-> ("ok", value) | ("err", ExcTypeName, message)"""
    try:
        return ("ok", fn())
    except Exception as e:  # noqa: BLE001
        return ("err", type(e).__name__, str(e)[:300])
