#!/usr/bin/env python3
"""Regenerates the machine-written parts of DESIGN.md (between <!-- BEGIN x --> / <!-- END x --> markers)
from known_findings.json and seeded/*/meta.json."""
import glob, json, os, re
root = os.path.dirname(os.path.dirname(os.path.abspath(__file__)))
kf = json.load(open(os.path.join(root, "known_findings.json")))["findings"]
def num(f):
    m = re.match(r"D(\d+)(\w*)", f["id"]); return (int(m.group(1)), m.group(2))
rows = ["| id | status | properties | what fails (real code) | disposition |", "|---|---|---|---|---|"]
for f in sorted(kf, key=num):
    disp = f"fix commit `{f['commit']}`" if f["status"] == "fixed" else "open known finding — " + f.get("why_not_fixed", "")
    rows.append(f"| {f['id']} | {f['status']} | {' '.join(f['properties'])} | {f['what'].replace('|', '/')} | {disp} |")
findings = "\n".join(rows)
srows = ["| seeded change | breaks | origin | caught by |", "|---|---|---|---|"]
for m in sorted(glob.glob(os.path.join(root, "seeded", "*", "meta.json"))):
    d = json.load(open(m))
    srows.append(f"| {d['id']} | {' '.join(d['breaks'])} | {d.get('origin','')[:90]} | {d.get('caught_by','(see §12)')} |")
seeded = "\n".join(srows)
strows = ["| id | theorems (all axioms ⊆ {propext, Classical.choice, Quot.sound}) | correspondence families (quick-tier evaluations) | support executions (quick) | open findings | not proven / partial |", "|---|---|---|---|---|---|"]
for ev in sorted(glob.glob(os.path.join(root, "evidence", "C*.json"))):
    d = json.load(open(ev)); c = d["coverage"]; pid = d["property_id"]
    openf = [f["id"] for f in kf if f["status"] == "open" and pid in f["properties"]]
    fams = "; ".join(f"{x['family'].split('[')[0]} ({x['evaluations']})" for x in c.get("correspondence", []))
    part = " / ".join(x[:140] for x in c.get("partial", []))[:420]
    strows.append(f"| {pid} | {len(c.get('theorems', {}))} | {fams[:520]} | {c.get('support_programs', 0)} | {' '.join(openf) or '—'} | {part or '—'} |")
status = "\n".join(strows)
p = os.path.join(root, "DESIGN.md")
s = open(p).read()
for name, text in (("FINDINGS", findings), ("SEEDED", seeded), ("STATUS", status)):
    pat = re.compile(rf"(<!-- BEGIN {name} -->).*?(<!-- END {name} -->)", re.S)
    if pat.search(s):
        s = pat.sub(lambda m: m.group(1) + "\n" + text + "\n" + m.group(2), s)
open(p, "w").write(s)
print("findings:", len(kf))
