#!/usr/bin/env python3
"""tools/record_fix.py <id> <commit> <props,comma> <demo.py> <what...>
Adds a 'fixed' entry to known_findings.json and writes seeded/revert-<id>/ (reverse patch of the fix commit,
made applicable to the *current* HEAD when later commits touched the same lines, demo, meta)."""
import json, os, shutil, subprocess, sys
fid, commit, props, demo = sys.argv[1:5]
what = " ".join(sys.argv[5:])
props = props.split(",")
root = os.path.dirname(os.path.dirname(os.path.abspath(__file__)))
p = os.path.join(root, "known_findings.json")
d = json.load(open(p))
d["findings"] = [f for f in d["findings"] if f["id"] != fid]
d["findings"].append({"id": fid, "properties": props, "status": "fixed", "commit": commit, "what": what,
                      "fixed_line": f"fixed: property={props[0]} {commit} {what}", "signature": {"fixed": fid}})
json.dump(d, open(p, "w"), indent=1)
dd = os.path.join(root, "seeded", f"revert-{fid}")
os.makedirs(dd, exist_ok=True)
diff = subprocess.check_output(["git", "-C", "/repo", "diff", commit, commit + "^"], text=True)
open(os.path.join(dd, "patch.diff"), "w").write(diff)
if demo != "-":
    shutil.copy(demo, os.path.join(dd, "demo.py"))
json.dump({"id": f"revert-{fid}", "breaks": props, "origin": f"reverse of fix commit {commit} (genuine defect {fid} of the original tree)",
           "needs": what, "demonstration": "PYTHONPATH=/verif /venv/bin/python demo.py fails (assert/exception/DIFF lines) with the patch applied and passes without it",
           "confirmed": "demo run by hand with and without the patch when the fix commit was prepared"}, open(os.path.join(dd, "meta.json"), "w"), indent=1)
