#!/usr/bin/env python3
"""tools/run_seeded.py [ids…] — run every seeded change against the registered checks of the properties it
breaks (scratch copies of /repo, never /repo itself) and record the outcome in seeded/<id>/meta.json
("caught_by": {check: "failing-input" | "no-failing-input-found" | "missed" | "error"})."""
import concurrent.futures as cf, glob, json, os, re, shutil, subprocess, sys, tempfile
root = os.path.dirname(os.path.dirname(os.path.abspath(__file__)))
registered = {c["property_id"] for c in json.load(open(os.path.join(root, "MANIFEST.json")))["checks"]}

def run_one(meta_path):
    d = json.load(open(meta_path))
    if d.get("obsolete"):
        return d["id"], {}
    sdir = os.path.dirname(meta_path)
    work = tempfile.mkdtemp(prefix="seed.", dir="/tmp")
    out = {}
    try:
        repo = os.path.join(work, "repo"); os.makedirs(repo)
        subprocess.run("git ls-files -z | xargs -0 cp --parents -t " + repo, shell=True, cwd="/repo", check=True)
        subprocess.run(["git", "init", "-q", "."], cwd=repo, check=True)
        r = subprocess.run(["git", "apply", os.path.join(sdir, "patch.diff")], cwd=repo, capture_output=True, text=True)
        if r.returncode:
            return d["id"], {"_": "patch does not apply: " + r.stderr[:100]}
        extra = d.get("also_check", [])
        for pid in [p for p in d["breaks"] + extra if p in registered]:
            env = dict(os.environ, DX_REPO=repo, VERIF_NO_EVIDENCE="1")
            p = subprocess.run(["./check", pid, "--tier", "quick"], cwd=root, env=env, capture_output=True, text=True, timeout=3000)
            txt = p.stdout + p.stderr
            if p.returncode == 1 and "VIOLATION" in txt:
                out[pid] = "no-failing-input-found" if "no-failing-input-found" in txt else "failing-input"
            elif p.returncode == 0:
                out[pid] = "missed"
            else:
                out[pid] = "error: " + txt[-200:].replace("\n", " ")
    finally:
        shutil.rmtree(work, ignore_errors=True)
    return d["id"], out

def main():
    metas = sorted(glob.glob(os.path.join(root, "seeded", "*", "meta.json")))
    if len(sys.argv) > 1:
        metas = [m for m in metas if any(a in m for a in sys.argv[1:])]
    with cf.ThreadPoolExecutor(max_workers=int(os.environ.get("SEED_JOBS", "3"))) as ex:
        for mid, out in ex.map(run_one, metas):
            mp = os.path.join(root, "seeded", mid, "meta.json")
            d = json.load(open(mp))
            prev = d.get("caught_by_detail", {})
            prev.update(out)
            d["caught_by_detail"] = prev
            caught = [f"{k} ({v})" for k, v in prev.items() if v in ("failing-input", "no-failing-input-found")]
            if not d.get("obsolete"):
                d["caught_by"] = ", ".join(caught) if caught else "not caught: " + json.dumps(prev)
            json.dump(d, open(mp, "w"), indent=1)
            print(mid, out, flush=True)
    # the runs regenerated lean/DxModel/Generated/*.lean from mutated sources: restore the committed tables
    subprocess.run(["git", "checkout", "-q", "--", "lean/DxModel/Generated"], cwd=root)

if __name__ == "__main__":
    main()
