#!/usr/bin/env python3
"""tools/collect_mutant.py <src_dir> <seeded_id> <breaks,comma> [--suite]
Confirms a sub-agent's mutant on scratch copies (demo passes on /repo, fails with the patch; with --suite the
pinned test-suite still passes with the patch) and stores it as seeded/<seeded_id>/."""
import json, os, shutil, subprocess, sys, tempfile
src, sid, breaks = sys.argv[1:4]
suite = "--suite" in sys.argv
root = os.path.dirname(os.path.dirname(os.path.abspath(__file__)))
work = tempfile.mkdtemp(prefix="mut.", dir="/tmp")
try:
    repo = os.path.join(work, "repo"); os.makedirs(repo)
    subprocess.run("git ls-files -z | xargs -0 cp --parents -t " + repo, shell=True, cwd="/repo", check=True)
    subprocess.run(["git", "init", "-q", "."], cwd=repo, check=True)
    subprocess.run(["git", "apply", os.path.join(src, "patch.diff")], cwd=repo, check=True)
    # the producing agent's demo may assert that it runs inside ITS worktree: drop those lines
    demo = os.path.join(work, "demo.py")
    lines = [l for l in open(os.path.join(src, "demo.py")).read().splitlines() if "__file__" not in l or "startswith" not in l]
    open(demo, "w").write("\n".join(lines) + "\n")
    def run(pp):
        env = dict(os.environ, PYTHONPATH=pp + ":" + root)
        p = subprocess.run(["/venv/bin/python", "-W", "ignore", demo], env=env, capture_output=True, text=True, timeout=1200, cwd=work)
        return p.returncode, (p.stdout + p.stderr)[-400:]
    rc_clean, out_clean = run("/repo")
    rc_mut, out_mut = run(repo)
    ok = rc_clean == 0 and rc_mut != 0
    suite_res = "not re-run here (the producing agent reported no new failures)"
    if suite and ok:
        p = subprocess.run([os.path.join(root, "tools", "baseline_check.py"), "6"], env=dict(os.environ, DX_REPO=repo), capture_output=True, text=True)
        suite_res = p.stdout.strip().splitlines()[0] if p.stdout.strip() else "no output"
        ok = ok and p.returncode == 0
    print(sid, "clean rc", rc_clean, "| mutant rc", rc_mut, "|", suite_res)
    if not ok:
        print("NOT CONFIRMED", out_clean[-200:], out_mut[-200:]); sys.exit(1)
    dst = os.path.join(root, "seeded", sid); os.makedirs(dst, exist_ok=True)
    for f in ("patch.diff", "notes.md"):
        if os.path.exists(os.path.join(src, f)):
            shutil.copy(os.path.join(src, f), os.path.join(dst, f))
    shutil.copy(demo, os.path.join(dst, "demo.py"))
    notes = open(os.path.join(src, "notes.md")).read() if os.path.exists(os.path.join(src, "notes.md")) else ""
    mp = os.path.join(dst, "meta.json")
    old = json.load(open(mp)) if os.path.exists(mp) else {}
    keep = {k: old[k] for k in ("caught_by", "caught_by_detail", "also_check") if k in old}
    json.dump({**keep, "id": sid, "breaks": breaks.split(","), "origin": "written by a fresh sub-agent given only the property text and a scratch worktree",
               "needs": notes[:900], "demonstration": "PYTHONPATH=<checkout> /venv/bin/python demo.py: exit 0 on the clean tree, non-zero with the patch",
               "confirmed": f"re-run by tools/collect_mutant.py on scratch copies: clean rc={rc_clean}, patched rc={rc_mut}; suite: {suite_res}",
               "demo_failure": out_mut[-300:]}, open(os.path.join(dst, "meta.json"), "w"), indent=1)
finally:
    shutil.rmtree(work, ignore_errors=True)
