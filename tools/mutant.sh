#!/bin/bash
# tools/mutant.sh <patch.diff> <check ids...>  — run checks against a scratch copy of /repo with the patch applied.
# The scratch copy lives under /tmp and is removed afterwards; /repo is never touched.
set -e
patch="$(realpath "$1")"; shift
work="$(mktemp -d /tmp/mutant.XXXXXX)"
# the run regenerates lean/DxModel/Generated/*.lean from the MUTANT: restore the committed tables afterwards
trap 'rm -rf "$work"; git -C "$(dirname "$0")/.." checkout -q -- lean/DxModel/Generated 2>/dev/null' EXIT
git -C /repo worktree list >/dev/null
mkdir -p "$work/repo"
(cd /repo && git ls-files -z | xargs -0 cp --parents -t "$work/repo")
(cd "$work/repo" && git init -q . && git apply "$patch")
cd "$(dirname "$0")/.."
for id in "$@"; do
  DX_REPO="$work/repo" VERIF_NO_EVIDENCE=1 ./check "$id" --tier "${TIER:-quick}" | tail -3
  echo "(see the rc= field of the check line above for $id)"
done
