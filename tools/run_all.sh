#!/bin/bash
# tools/run_all.sh [tier] [seed] — run every registered check once; print one summary line per check
cd "$(dirname "$0")/.."
tier="${1:-quick}"; seed="${2:-0}"
for id in $(python3 -c "import json; print(' '.join(c['property_id'] for c in json.load(open('MANIFEST.json'))['checks']))"); do
  s=$(date +%s)
  out=$(VERIF_SEED=$seed ./check "$id" --tier "$tier" 2>&1); rc=$?
  e=$(date +%s)
  echo "$id rc=$rc $((e-s))s known=$(echo "$out" | grep -c '^KNOWN-FINDING') $(echo "$out" | grep -E 'VIOLATION|ERROR' | head -2 | tr '\n' ' ')"
done
