#!/venv/bin/python
"""Run the repository's pinned test suite and compare with /root/.vp/BASELINE.json (stable_pass must all pass)."""
import ast, json, subprocess, sys, tempfile, xml.etree.ElementTree as ET
b = json.load(open("/root/.vp/BASELINE.json"))
stable = b["stable_pass"]
if isinstance(stable, str):
    stable = ast.literal_eval(stable)
out = tempfile.mktemp(suffix=".xml")
cmd = b["cmd"].replace("<file>", out)
import os
repo = os.environ.get("DX_REPO")
if repo:  # run the pinned suite on a scratch copy (mutation testing)
    cmd = cmd.replace("cd /repo", f"cd {repo} && PYTHONPATH={repo}")
if len(sys.argv) > 1:
    cmd += " -n " + sys.argv[1]
subprocess.run(cmd, shell=True, stdout=subprocess.DEVNULL, stderr=subprocess.DEVNULL)
passed = set()
for tc in ET.parse(out).getroot().iter("testcase"):
    if not any(c.tag in ("failure", "error", "skipped") for c in tc):
        passed.add(f"{tc.get('classname')}::{tc.get('name')}")
missing = [t for t in stable if t not in passed]
print(f"stable_pass={len(stable)} passed_now={len(passed)} missing={len(missing)}")
for t in missing[:40]:
    print("  MISSING", t)
sys.exit(1 if missing else 0)
