theorem flatMap_congr' {α β} (l : List α) (f g : α → List β) (h : ∀ a ∈ l, f a = g a) :
    l.flatMap f = l.flatMap g := by
  induction l with
  | nil => rfl
  | cons a t ih =>
    simp only [List.flatMap_cons]
    rw [h a (by simp), ih (fun b hb => h b (by simp [hb]))]

/-- a k-way split of a list by a key function is a permutation of the list -/
theorem split_perm {α} (l : List α) (f : α → Nat) (k : Nat) (h : ∀ r ∈ l, f r < k) :
    ((List.range k).flatMap (fun i => l.filter (fun r => f r == i))).Perm l := by
  induction k generalizing l with
  | zero =>
    cases l with
    | nil => simp
    | cons a t => exact absurd (h a (by simp)) (by omega)
  | succ k ih =>
    rw [List.range_succ, List.flatMap_append]
    simp only [List.flatMap_cons, List.flatMap_nil, List.append_nil]
    have h1 : ((List.range k).flatMap (fun i => l.filter (fun r => f r == i))).Perm
        (l.filter (fun r => decide (f r < k))) := by
      have := ih (l.filter (fun r => decide (f r < k))) (by
        intro r hr; simpa using (List.mem_filter.mp hr).2)
      refine List.Perm.trans ?_ this
      apply List.Perm.of_eq
      apply flatMap_congr'
      intro i hi
      have hik : i < k := List.mem_range.mp hi
      rw [List.filter_filter]
      apply List.filter_congr
      intro r _
      by_cases hri : f r = i
      · simp [hri, hik]
      · simp [hri]
    have h2 : (l.filter (fun r => f r == k)) = l.filter (fun r => !decide (f r < k)) := by
      apply List.filter_congr
      intro r hr
      have := h r hr
      by_cases hrk : f r = k
      · simp [hrk]
      · have : f r < k := by omega
        simp [hrk, this]
    rw [h2]
    exact (List.Perm.append h1 (List.Perm.refl _)).trans (List.filter_append_perm _ l)
#print axioms split_perm
