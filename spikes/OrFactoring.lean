namespace Dx
inductive P where
  | atom : Nat → P
  | and : P → P → P
  | or : P → P → P
deriving DecidableEq, Repr

def P.eval (v : Nat → Bool) : P → Bool
  | .atom n => v n
  | .and a b => a.eval v && b.eval v
  | .or a b => a.eval v || b.eval v

def orComps : P → List P
  | .or a b => orComps a ++ orComps b
  | p => [p]
def andComps : P → List P
  | .and a b => andComps a ++ andComps b
  | p => [p]

/-- left-assoc fold as the code builds it: `outer = outer & m[r]` -/
def mkAnd : P → List P → P
  | acc, [] => acc
  | acc, c :: t => mkAnd (.and acc c) t
def mkOr : P → List P → P
  | acc, [] => acc
  | acc, c :: t => mkOr (.or acc c) t

/-- dict(zip(names, comps)).keys(): first occurrences, in order -/
def dedup : List P → List P
  | [] => []
  | a :: t => a :: (dedup t).filter (· != a)

def replaceCommon (first : P) (rest : List P) : Option P :=
  let m := dedup (andComps first)
  let ms := rest.map (fun c => dedup (andComps c))
  let repl := m.filter (fun c => ms.all (fun comp => comp.contains c))
  match repl with
  | [] => none
  | r :: rs =>
    let outer := mkAnd r rs
    let keeps := (m :: ms).map (fun comp => comp.filter (fun c => !repl.contains c))
    if keeps.any (·.isEmpty) then some outer          -- early `return outer_component`
    else
      let comps := keeps.map (fun k => match k with | [] => first | c :: t => mkAnd c t)
      match comps with
      | [] => none
      | c :: t => some (.and outer (mkOr c t))

def rewriteFilters (p : P) : P :=
  match orComps p with
  | [] => p
  | [_] => p
  | f :: rest => (replaceCommon f rest).getD p

#eval rewriteFilters (.or (.and (.atom 0) (.atom 1)) (.and (.atom 0) (.atom 2)))
#eval rewriteFilters (.or (.and (.atom 0) (.atom 1)) (.atom 0))

/-! ### truth preservation -/
theorem eval_orComps (v) (p : P) : (orComps p).any (·.eval v) = p.eval v := by
  induction p with
  | atom n => simp [orComps, P.eval]
  | and a b _ _ => simp [orComps, P.eval]
  | or a b iha ihb => simp [orComps, P.eval, List.any_append, iha, ihb]

theorem eval_andComps (v) (p : P) : (andComps p).all (·.eval v) = p.eval v := by
  induction p with
  | atom n => simp [andComps, P.eval]
  | or a b _ _ => simp [andComps, P.eval]
  | and a b iha ihb => simp [andComps, P.eval, List.all_append, iha, ihb]

theorem eval_mkAnd (v) : ∀ l acc, (mkAnd acc l).eval v = (acc.eval v && l.all (·.eval v)) := by
  intro l; induction l with
  | nil => intro acc; simp [mkAnd]
  | cons c t ih => intro acc; simp [mkAnd, ih, P.eval, Bool.and_assoc]

theorem eval_mkOr (v) : ∀ l acc, (mkOr acc l).eval v = (acc.eval v || l.any (·.eval v)) := by
  intro l; induction l with
  | nil => intro acc; simp [mkOr]
  | cons c t ih => intro acc; simp [mkOr, ih, P.eval, Bool.or_assoc]

theorem all_dedup (v) (l : List P) : (dedup l).all (·.eval v) = l.all (·.eval v) := by
  induction l with
  | nil => rfl
  | cons a t ih =>
    simp only [dedup, List.all_cons]
    rw [← ih]
    by_cases ha : a.eval v
    · simp only [ha, Bool.true_and]
      rw [Bool.eq_iff_iff]; simp only [List.all_eq_true, List.mem_filter]
      constructor
      · intro h x hx
        by_cases hxa : x = a
        · subst hxa; exact ha
        · exact h x ⟨hx, by simpa using hxa⟩
      · intro h x hx; exact h x hx.1
    · simp [ha]
end Dx
