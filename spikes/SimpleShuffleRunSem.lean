namespace Dx

structure Row where
  tgt : Nat
  pay : Nat
deriving DecidableEq, Repr

inductive Key where
  | inp   (i : Nat)
  | out   (i : Nat)
  | split (o i : Nat)
  | group (i : Nat)
deriving DecidableEq, Repr

inductive V where
  | frame  (rows : List Row)
  | groups (g : List (Nat × List Row))
  | err
deriving Repr

inductive Tsk where
  | concat (ks : List Key)
  | getitem (k : Key) (i : Nat)
  | shuffleGroup (k : Key) (filter : Option (List Nat)) (npart : Nat)
deriving Repr

abbrev Graph := Key → Option Tsk

def shuffleGroupSpec (rows : List Row) (filter : Option (List Nat)) (n : Nat) : List (Nat × List Row) :=
  let ks := (List.range n).filter (fun k => match filter with | none => true | some f => f.contains k)
  ks.map (fun k => (k, rows.filter (fun r => r.tgt % n == k)))

def lookupG : List (Nat × List Row) → Nat → V
  | [], _ => .err                      -- KeyError
  | (k, rows) :: t, i => if k = i then .frame rows else lookupG t i

def concatV : List V → V
  | [] => .frame []
  | .frame r :: t => match concatV t with
      | .frame rs => .frame (r ++ rs)
      | _ => .err
  | _ :: _ => .err

def evalTsk (ev : Key → V) : Tsk → V
  | .concat ks => concatV (ks.map ev)
  | .getitem k i => match ev k with
      | .groups g => lookupG g i
      | _ => .err
  | .shuffleGroup k f n => match ev k with
      | .frame rows => .groups (shuffleGroupSpec rows f n)
      | _ => .err

def run (g : Graph) (inputs : Nat → List Row) : Nat → Key → V
  | _, .inp i => .frame (inputs i)
  | 0, _ => .err
  | fuel+1, k => match g k with
      | some t => evalTsk (run g inputs fuel) t
      | none => .err                   -- key not in graph

structure SSParams where
  nin : Nat
  nout : Nat
  parts : List Nat
  filtered : Bool

def simpleLayer (p : SSParams) : Graph
  | .out j => if h : j < p.parts.length then
      some (.concat ((List.range p.nin).map (fun i => Key.split p.parts[j] i))) else none
  | .split o i => if o ∈ p.parts ∧ i < p.nin then some (.getitem (.group i) o) else none
  | .group i => if i < p.nin then
      some (.shuffleGroup (.inp i) (if p.filtered then some p.parts else none) p.nout) else none
  | .inp _ => none

def simpleSem (p : SSParams) (inputs : Nat → List Row) (o : Nat) : List Row :=
  ((List.range p.nin).map (fun i => (inputs i).filter (fun r => r.tgt % p.nout == o))).flatten

theorem concatV_frames {α} (l : List α) (f : α → List Row) :
    concatV (l.map (fun a => V.frame (f a))) = .frame (l.map f).flatten := by
  induction l with
  | nil => rfl
  | cons a t ih => simp [concatV, ih]

theorem lookup_map (F : Nat → List Row) (ks : List Nat) (o : Nat) (h : o ∈ ks) :
    lookupG (ks.map (fun k => (k, F k))) o = .frame (F o) := by
  induction ks with
  | nil => cases h
  | cons a t ih =>
    simp only [List.map_cons, lookupG]
    by_cases hao : a = o
    · simp [hao]
    · simp only [hao, if_false]
      cases h with
      | head => exact absurd rfl hao
      | tail _ h => exact ih h

theorem lookup_spec (rows : List Row) (f : Option (List Nat)) (n o : Nat) (ho : o < n)
    (hf : ∀ l, f = some l → o ∈ l) :
    lookupG (shuffleGroupSpec rows f n) o = .frame (rows.filter (fun r => r.tgt % n == o)) := by
  unfold shuffleGroupSpec
  apply lookup_map (fun k => rows.filter (fun r => r.tgt % n == k))
  rw [List.mem_filter]
  refine ⟨List.mem_range.mpr ho, ?_⟩
  cases f with
  | none => rfl
  | some l => simpa using hf l rfl

theorem run_simple (p : SSParams) (inputs : Nat → List Row) (j : Nat) (hj : j < p.parts.length)
    (hparts : ∀ o ∈ p.parts, o < p.nout) :
    run (simpleLayer p) inputs 3 (.out j) = .frame (simpleSem p inputs p.parts[j]) := by
  have ho : p.parts[j] ∈ p.parts := List.getElem_mem hj
  have hsplit : ∀ i, i ∈ List.range p.nin → run (simpleLayer p) inputs 2 (.split p.parts[j] i) =
      .frame ((inputs i).filter (fun r => r.tgt % p.nout == p.parts[j])) := by
    intro i hi
    have hi' := List.mem_range.mp hi
    simp only [run, simpleLayer, ho, hi', and_self, if_true, evalTsk]
    apply lookup_spec _ _ _ _ (hparts _ ho)
    intro l hl
    by_cases hf : p.filtered <;> simp [hf] at hl
    subst hl; exact ho
  simp only [run, simpleLayer, hj, dite_true, evalTsk, List.map_map]
  have : (List.range p.nin).map (run (simpleLayer p) inputs 2 ∘ fun i => Key.split p.parts[j] i) =
      (List.range p.nin).map (fun i => V.frame ((inputs i).filter (fun r => r.tgt % p.nout == p.parts[j]))) := by
    apply List.map_congr_left
    intro i hi
    exact hsplit i hi
  rw [this, concatV_frames]
  rfl

#print axioms run_simple
end Dx
