namespace Dx
structure Row where
  tgt : Nat
  pay : Nat
deriving DecidableEq, Repr

/-- all digit tuples of length t over base k, last position varying slowest (so that stage t extends at position t) -/
def tuples (k : Nat) : Nat → List (List Nat)
  | 0 => [[]]
  | t+1 => (List.range k).flatMap (fun i => (tuples k t).map (fun pre => pre ++ [i]))

/-- one stage, pull formulation, exactly the `_concat_list` of TaskShuffle._layer:
    output partition `out` concatenates, for i in range(k), the group `out[t]` of input partition `insert(out, t, i)` -/
def stageStep (k : Nat) (dig : Row → Nat → Nat) (t : Nat) (cur : List Nat → List Row) (out : List Nat) : List Row :=
  (List.range k).flatMap fun i => (cur (out.set t i)).filter fun r => dig r t == out.getD t 0

def runStages (k : Nat) (dig : Row → Nat → Nat) (cur0 : List Nat → List Row) : Nat → List Nat → List Row
  | 0, out => cur0 out
  | t+1, out => stageStep k dig t (runStages k dig cur0 t) out

/-- rows agree with `out` on digits < t -/
def agree (dig : Row → Nat → Nat) (out : List Nat) (t : Nat) (r : Row) : Bool :=
  (List.range t).all fun j => dig r j == out.getD j 0

theorem flatMap_congr' {α β} (l : List α) (f g : α → List β) (h : ∀ a ∈ l, f a = g a) :
    l.flatMap f = l.flatMap g := by
  induction l with
  | nil => rfl
  | cons a t ih =>
    simp only [List.flatMap_cons]
    rw [h a (by simp), ih (fun b hb => h b (by simp [hb]))]

theorem perm_flatMap_congr {α β} (l : List α) (f g : α → List β) (h : ∀ a ∈ l, (f a).Perm (g a)) :
    (l.flatMap f).Perm (l.flatMap g) := by
  induction l with
  | nil => exact List.Perm.refl _
  | cons a t ih =>
    simp only [List.flatMap_cons]
    exact List.Perm.append (h a (by simp)) (ih (fun b hb => h b (by simp [hb])))

theorem filter_flatMap' {α β} (p : β → Bool) (l : List α) (f : α → List β) :
    (l.flatMap f).filter p = l.flatMap (fun a => (f a).filter p) := by
  induction l with
  | nil => rfl
  | cons a t ih => simp [List.flatMap_cons, List.filter_append, ih]

theorem drop_set_self (l : List Nat) (t i : Nat) (h : t < l.length) :
    (l.set t i).drop t = i :: l.drop (t+1) := by
  induction l generalizing t with
  | nil => simp at h
  | cons a tl ih =>
    cases t with
    | zero => simp
    | succ t => simp at h ⊢; exact ih t h

theorem getD_set_ne (l : List Nat) (t i j : Nat) (h : j ≠ t) : (l.set t i).getD j 0 = l.getD j 0 := by
  simp [List.getD_eq_getElem?_getD, List.getElem?_set, Ne.symm h]

theorem agree_succ (dig : Row → Nat → Nat) (out : List Nat) (t : Nat) (r : Row) :
    agree dig out (t+1) r = (agree dig out t r && dig r t == out.getD t 0) := by
  simp [agree, List.range_succ, List.all_append]

theorem agree_set (dig : Row → Nat → Nat) (out : List Nat) (t i : Nat) (r : Row) :
    agree dig (out.set t i) t r = agree dig out t r := by
  unfold agree
  rw [Bool.eq_iff_iff]
  simp only [List.all_eq_true, List.mem_range]
  constructor
  · intro h j hj; have := h j hj; rwa [getD_set_ne _ _ _ _ (by omega)] at this
  · intro h j hj; have := h j hj; rwa [getD_set_ne _ _ _ _ (by omega)]

theorem stage_invariant (k : Nat) (dig : Row → Nat → Nat) (cur0 : List Nat → List Row) :
    ∀ t (out : List Nat), t ≤ out.length →
      (runStages k dig cur0 t out).Perm
        ((tuples k t).flatMap fun pre => (cur0 (pre ++ out.drop t)).filter (agree dig out t)) := by
  intro t
  induction t with
  | zero =>
    intro out _
    have : (fun r => agree dig out 0 r) = fun _ => true := by funext r; simp [agree]
    simp only [runStages, tuples, List.flatMap_cons, List.flatMap_nil, List.append_nil, List.nil_append, List.drop_zero]
    have h2 : (cur0 out).filter (agree dig out 0) = cur0 out := by
      apply List.filter_eq_self.mpr
      intro a _; simp [agree]
    rw [h2]
  | succ t ih =>
    intro out hlen
    have hlt : t < out.length := hlen
    simp only [runStages, stageStep]
    have step1 : ∀ i ∈ List.range k,
        ((runStages k dig cur0 t (out.set t i)).filter fun r => dig r t == out.getD t 0).Perm
        (((tuples k t).flatMap fun pre =>
            (cur0 (pre ++ (out.set t i).drop t)).filter (agree dig (out.set t i) t)).filter
              fun r => dig r t == out.getD t 0) := by
      intro i _
      exact (ih (out.set t i) (by simp; omega)).filter _
    refine (perm_flatMap_congr _ _ _ step1).trans ?_
    apply List.Perm.of_eq
    simp only [tuples, List.flatMap_assoc]
    apply flatMap_congr'
    intro i _
    rw [List.filter_flatMap, List.flatMap_map]
    apply flatMap_congr'
    intro pre _
    rw [drop_set_self _ _ _ hlt, List.filter_filter, List.append_assoc]
    simp only [List.singleton_append]
    apply List.filter_congr
    intro r _
    rw [agree_succ, agree_set, Bool.and_comm]

#print axioms stage_invariant
end Dx
