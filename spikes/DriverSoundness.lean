namespace Dx

inductive Expr where
  | node (cls : Nat) (lit : Nat) (args : List Expr)
deriving Repr

-- decidable equality for nested inductive
mutual
def Expr.beq : Expr → Expr → Bool
  | .node c l as, .node c' l' as' => c == c' && l == l' && Expr.beqList as as'
def Expr.beqList : List Expr → List Expr → Bool
  | [], [] => true
  | a :: t, a' :: t' => Expr.beq a a' && Expr.beqList t t'
  | _, _ => false
end

abbrev Value := Nat   -- stand-in for frames

/-- compositional semantics: the meaning of a node is a function of class, literal and the meanings of its operands -/
structure Interp where
  sem : Nat → Nat → List Value → Value

mutual
def denote (I : Interp) : Expr → Value
  | .node c l as => I.sem c l (denoteList I as)
def denoteList (I : Interp) : List Expr → List Value
  | [] => []
  | a :: t => denote I a :: denoteList I t
end

def Expr.args : Expr → List Expr | .node _ _ as => as
def Expr.withArgs : Expr → List Expr → Expr | .node c l _, as => .node c l as

abbrev Deps := List (Expr × Expr)      -- (child, parent) pairs: arbitrary, possibly stale

structure Rules where
  down : Expr → Option Expr
  up   : Expr → Expr → Deps → Option Expr       -- child, parent, deps

structure RulesSound (I : Interp) (R : Rules) : Prop where
  down_ok : ∀ e e', R.down e = some e' → denote I e' = denote I e
  up_ok   : ∀ c p d e', R.up c p d = some e' → denote I e' = denote I p

/-- first child whose up-rule fires (the `for child in expr.dependencies()` loop with `break`) -/
def firstUp (R : Rules) (p : Expr) (d : Deps) : List Expr → Option Expr
  | [] => none
  | c :: t => match R.up c p d with
      | some e' => some e'
      | none => firstUp R p d t

/-- simplify_once: down once, up loop, then children (fuel because rule outputs are not subterms) -/
def simplifyOnce (R : Rules) (d : Deps) : Nat → Expr → Expr
  | 0, e => e
  | fuel+1, e =>
    let e1 := (R.down e).getD e
    let e2 := (firstUp R e1 d e1.args).getD e1
    e2.withArgs (e2.args.map (simplifyOnce R (d) fuel))

theorem firstUp_sound (I : Interp) (R : Rules) (h : RulesSound I R) (p : Expr) (d : Deps) :
    ∀ cs e', firstUp R p d cs = some e' → denote I e' = denote I p := by
  intro cs
  induction cs with
  | nil => intro e' h'; cases h'
  | cons c t ih =>
    intro e' h'
    unfold firstUp at h'
    split at h'
    · next e'' hu => cases h'; exact h.up_ok c p d _ hu
    · exact ih e' h'

theorem denoteList_map_congr (I : Interp) (f : Expr → Expr) :
    ∀ as : List Expr, (∀ a ∈ as, denote I (f a) = denote I a) → denoteList I (as.map f) = denoteList I as := by
  intro as
  induction as with
  | nil => intro _; rfl
  | cons a t ih =>
    intro h
    simp only [List.map_cons, denoteList]
    rw [h a (by simp), ih (fun b hb => h b (by simp [hb]))]

theorem withArgs_denote (I : Interp) (e : Expr) (as : List Expr)
    (h : denoteList I as = denoteList I e.args) : denote I (e.withArgs as) = denote I e := by
  cases e with
  | node c l as' => simp [Expr.withArgs, denote, Expr.args] at *; rw [h]

theorem simplifyOnce_sound (I : Interp) (R : Rules) (h : RulesSound I R) :
    ∀ fuel d e, denote I (simplifyOnce R d fuel e) = denote I e := by
  intro fuel
  induction fuel with
  | zero => intro d e; rfl
  | succ n ih =>
    intro d e
    simp only [simplifyOnce]
    have h1 : denote I ((R.down e).getD e) = denote I e := by
      cases hd : R.down e with
      | none => rfl
      | some e' => exact h.down_ok e e' hd
    generalize (R.down e).getD e = e1 at h1 ⊢
    have h2 : denote I ((firstUp R e1 d e1.args).getD e1) = denote I e1 := by
      cases hu : firstUp R e1 d e1.args with
      | none => rfl
      | some e' => exact firstUp_sound I R h e1 d _ e' hu
    generalize (firstUp R e1 d e1.args).getD e1 = e2 at h2 ⊢
    rw [withArgs_denote, h2, h1]
    exact denoteList_map_congr I _ _ (fun a _ => ih d a)

#print axioms simplifyOnce_sound
end Dx
